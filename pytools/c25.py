#!/usr/bin/env python3
"""C25 - Filelists are complete, dependency-ordered and collision-free.

Runtime monitor over the real CLI: generate a multi-file project universe whose file reference graph is
known (projgen2), run `veryl build --verbose` in a fresh tree for every `target` x `sourcemap_target` x
`filelist_type`, then judge what the build left behind:

  1. filelist syntax per type; no duplicate entries; every entry is a file this build emitted;
     every emitted root-project output that has SystemVerilog content is listed; every dependency / std
     output a listed file (transitively) references is listed               (DESIGN 7a "C25 completeness")
  2. for every edge A -> B of the generator's *acyclic* file reference graph with both listed (or both in
     the bundle): B comes before A
  3. no two sources share a dst or map path: observed three ways - the emitter's own log (`Output file` /
     `Output map` written twice), the marker comment every source carries (each source must surface in
     exactly one output / exactly once in the bundle) and the `.sv.map` files (one per source).
"""
import json
import os
import re
import sys

sys.path.insert(0, os.path.dirname(os.path.abspath(__file__)))
from vcommon import Args, Run, Rng  # noqa: E402
import projgen2  # noqa: E402
import c2xlib as L  # noqa: E402

TARGETS = ["directory", "bundle", "source"]
SOURCEMAPS = ["target", "directory", "none"]
FILELISTS = ["absolute", "relative", "flgen"]


OUTDIRS = [None, "build-out", "../outside/out"]      # --out-dir: none / inside the project / outside of it


def make_case(seed, i):
    rng = Rng.for_case(seed, "C25", i)
    target = TARGETS[i % 3]
    sm = SOURCEMAPS[(i // 3) % 3]
    fl = FILELISTS[(i // 9) % 3]
    out_dir = OUTDIRS[(i // 27) % 3]
    nsrc = rng.pick([1, 2, 2, 3])
    layout = rng.pick(["flat", "subdirs", "equal-base", "equal-base", "equal-rel"])
    if out_dir is not None:
        # --out-dir re-roots the outputs by their sources-relative path (also for the `source` target): half of
        # these cases, deterministically, have the same relative path below two sources dirs
        layout = "equal-rel" if (i // 3 + i // 27) % 2 == 0 else rng.pick(["flat", "subdirs", "equal-base"])
    if layout == "equal-rel" and nsrc < 2:
        nsrc = 2
    std = rng.chance(1, 6)
    root_opts = {"target": target, "sourcemap": sm, "filelist": fl, "std": std,
                 "target_path": {"directory": rng.pick(["target", "out/sv"]), "bundle": rng.pick(["all.sv", "out/all.sv"]),
                                 "source": ""}[target],
                 "sourcemap_path": rng.pick(["maps", "out/maps"])}
    opts = {"root_opts": root_opts, "nsources": nsrc, "layout": layout, "examples": True, "tests": True,
            "warnings": False, "multi_item": rng.pick([0, 0, 30, 50]),
            "deps": rng.pick([0, 0, 1, 2, 3]), "nfiles": rng.range(3, 9)}
    u = projgen2.gen_universe(rng.fork(), opts)
    case = L.case_from_universe(u)
    case["gen_opts"] = {k: v for k, v in opts.items() if k != "root_opts"}
    case["index"] = i
    case["out_dir"] = out_dir
    return case


def collision_expected(case):
    """Do two root sources legitimately share an output path (so that refusing the build is correct)?
    directory target, or source target re-rooted by --out-dir: the same relative path below two sources dirs."""
    t = case["opts"]["target"]
    return layout_class(case) == "equal-relpath-in-two-sources-dirs" and \
        (t == "directory" or (t == "source" and case.get("out_dir") is not None))


def layout_class(case):
    """Scenario class used in signatures: which kind of name clash the root project's sources contain."""
    roots = [f for f in case["files"] if f["root"] and not f["example"]]
    rels, bases = {}, {}
    for f in roots:
        rels.setdefault(f["rel"], set()).add(f["srcdir"])
        bases.setdefault(os.path.basename(f["rel"]), []).append(f["uid"])
    if any(len(v) > 1 for v in rels.values()):
        return "equal-relpath-in-two-sources-dirs"
    if any(len(v) > 1 for v in bases.values()):
        return "equal-basenames"
    return "distinct-names"


def clash_partner(case, f):
    """Why could file f collide with another root source under the configured target?"""
    roots = [g for g in case["files"] if g["root"] and not g["example"] and g["uid"] != f["uid"]]
    if any(g["rel"] == f["rel"] for g in roots):
        return "equal-relpath-in-two-sources-dirs"
    if any(os.path.basename(g["rel"]) == os.path.basename(f["rel"]) for g in roots):
        return "equal-basenames"
    return "distinct-names"


def examine(case, root, build):
    """All oracles for one built tree. Returns dict(findings=[(signature, what, detail)], counters={...})."""
    opts = case["opts"]
    target, sm, ftype = opts["target"], opts["sourcemap"], opts["filelist"]
    findings = []
    cnt = {}
    files = {f["uid"]: f for f in case["files"]}
    lclass = layout_class(case)
    multi = {u for u, f in files.items() if f["nitems"] > 1}

    def bump(k, n=1):
        cnt[k] = cnt.get(k, 0) + n

    def found(sig, what, detail=None):
        findings.append((sig, what, detail or {}))

    # ---- what the build wrote -------------------------------------------------------------------
    everything = L.read_files(root, lambda rel: not rel.startswith(".build"))
    sv = {rel: b.decode("utf-8", "replace") for rel, b in everything.items() if rel.endswith(".sv")}
    maps = {rel: b.decode("utf-8", "replace") for rel, b in everything.items() if rel.endswith(".sv.map")}
    bundle_rel = os.path.normpath(opts["target_path"]) if target == "bundle" else None

    flname = L.filelist_name(case["name"], ftype)
    if flname not in everything:
        found(f"filelist:not-written:{target}", f"build exit 0 but {flname} does not exist")
        return {"findings": findings, "counters": cnt}
    entries_abs, bad = L.parse_filelist(everything[flname].decode("utf-8", "replace"), ftype, root)
    bump("filelists_parsed")
    if bad:
        found(f"filelist:malformed-line:{ftype}", f"line(s) not in {ftype} syntax: {bad[:3]}")
    entries = [os.path.relpath(p, root) for p in entries_abs]
    bump("filelist_entries", len(entries))

    # (1) duplicates / not emitted
    seen = set()
    dups = []
    for e in entries:
        if e in seen:
            dups.append(e)
        seen.add(e)
    dup_pending = dups
    ghosts = [e for e in entries if e not in sv]
    if ghosts:
        found(f"filelist:entry-not-emitted:{target}", f"listed but not written by this build: {ghosts[:4]}")

    # ---- source -> output by marker comment -----------------------------------------------------
    where = {}          # uid -> [(output rel, offset)]
    for rel, text in sv.items():
        for off, uid in L.markers(text):
            where.setdefault(uid, []).append((rel, off))

    # (3a) collisions seen in the emitter's own log
    dst_log, map_log = L.logged_outputs(build["err"])
    bump("dst_paths_logged", len(dst_log))
    collided = False
    collided_paths = set()
    for kind, log in (("dst", dst_log), ("map", map_log)):
        if kind == "map" and target == "bundle":
            continue                      # a bundle build stages maps in a temp dir and drops them
        seen2, twice = set(), []
        for p in log:
            if p in seen2:
                twice.append(p)
            seen2.add(p)
        if twice:
            collided = True
            collided_paths.update(os.path.relpath(t, root) for t in twice)
            cls = "equal-basenames" if target == "bundle" and lclass != "distinct-names" else lclass
            found(f"collision:{kind}:{target}:{cls}",
                  f"two sources were written to one {kind} path (exit 0): {[os.path.basename(t) for t in twice[:3]]}",
                  {"paths_written_twice": twice[:8]})
    if dup_pending:
        bump("filelist_duplicate_entries", len(dup_pending))
        if not set(dup_pending) <= collided_paths:      # else: consequence of the collision reported above
            found(f"filelist:duplicate-entry:{target}:{lclass}", f"listed more than once: {dup_pending[:4]}",
                  {"dups": dup_pending})
    # (3b) every non-example source surfaces exactly once
    reach = reachable(case)
    ireach = item_reachable_files(case)
    protoonly = {u for u, f in files.items() if all(x.startswith("proto:") for x in f["items"])}
    for uid, f in files.items():
        occ = where.get(uid, [])
        if f["example"]:
            if occ:
                found("emit:example-emitted", f"examples/ source {f['path']} was emitted to {occ[0][0]}")
            continue
        if target == "bundle" and uid in protoonly:
            # a proto-only source emits no SystemVerilog; its (unlisted) output never reaches the bundle
            bump("unlisted_outputs_without_sv_content")
            continue
        if target == "bundle" and not f["root"]:
            continue                      # dependency files in a bundle: judged as filelist completeness below
        if len(occ) == 0:
            bump("sources_lost")
            if not collided:
                found(f"emit:source-lost:{target}:{clash_partner(case, f)}",
                      f"{f['proj']}/{f['path']} ({', '.join(f['items'])}) is in no output although the build exit code is 0")
        elif len(occ) > 1:
            bump("sources_duplicated")
            if not collided:
                found(f"emit:source-duplicated:{target}:{clash_partner(case, f)}",
                      f"{f['proj']}/{f['path']} appears {len(occ)} times in the outputs: {occ[:3]}")
        else:
            bump("sources_placed_once")
    # (3c) one map per source
    if target != "bundle" and sm != "none":
        mapped = {}
        for rel, text in maps.items():
            for uid in set(u for _o, u in L.markers(text)):
                mapped.setdefault(uid, []).append(rel)
        for uid, f in files.items():
            if f["example"]:
                continue
            n = len(mapped.get(uid, []))
            if n == 1:
                bump("maps_matched")
            elif not collided:
                found(f"map:count-{min(n, 2)}:{target}:{clash_partner(case, f)}",
                      f"{f['proj']}/{f['path']} has {n} source maps: {mapped.get(uid)}")

    # ---- listed order of sources ----------------------------------------------------------------
    order = []          # uids in list order
    listed_outputs = None
    if target == "bundle":
        if entries != [bundle_rel]:
            found("filelist:bundle-entry", f"bundle filelist should name exactly {bundle_rel}, has {entries[:4]}")
        text = sv.get(bundle_rel, "")
        bump("bundles_parsed")
        order = [uid for _off, uid in L.markers(text)]
    else:
        by_output = {}
        for uid, occ in where.items():
            for rel, off in occ:
                by_output.setdefault(rel, []).append((off, uid))
        for e in entries:
            for _off, uid in sorted(by_output.get(e, [])):
                order.append(uid)
        listed_outputs = set(entries)
        # (1) completeness over root-project outputs
        for rel, text in sv.items():
            if rel.startswith("dependencies" + os.sep):
                continue
            if rel in listed_outputs:
                bump("root_outputs_listed")
            elif L.sv_has_content(text):
                uids = sorted(set(u for _o, u in L.markers(text)))
                found(f"filelist:root-output-missing:{target}",
                      f"emitted {rel} (sources {uids}) has SystemVerilog content but is not in the filelist")
            else:
                bump("unlisted_outputs_without_sv_content")
    pos = {}
    for k, uid in enumerate(order):
        pos.setdefault(uid, k)
    # (1) dependency files the listed files (transitively) reference must be present
    for uid in sorted(reach):
        f = files[uid]
        if f["root"] or uid in pos or uid in protoonly:
            continue
        if target != "bundle" and uid not in where:
            continue                      # not emitted at all: reported above
        bump("dependency_files_required")
        via = "direct" if uid in ireach else "through-sibling-item-of-multi-item-file"
        found(f"filelist:referenced-file-missing:dependency:{via}",
              f"{f['proj']}/{f['path']} ({', '.join(f['items'])}) is referenced (file graph) from listed files but is "
              f"not {'in the bundle' if target == 'bundle' else 'listed'}", {"uid": uid, "order": order})
    bump("dependency_files_listed", len([u for u in pos if not files[u]["root"]]))
    # (2) order
    induced = {(a, b) for a, b in case["induced"]}
    for a, bs in case["graph"].items():
        for b in bs:
            if files[a]["example"] or a not in pos or b not in pos:
                continue
            if collided:
                bump("order_edges_skipped_after_collision")
                continue
            bump("order_edges_checked")
            if not files[b]["root"]:
                bump("order_edges_to_dependency")
            if pos[b] < pos[a]:
                continue
            if target != "bundle":
                oa, ob = where[a][0][0], where[b][0][0]
                if not (L.sv_has_content(sv[oa]) and L.sv_has_content(sv[ob])):
                    bump("order_inversions_on_contentless_output")
                    continue
            kind = "generic-instance-edge" if (a, b) in induced else "reference-edge"
            shape = "multi-item-file" if (a in multi or b in multi) else "single-item-files"
            to = "root" if files[b]["root"] else "dependency"
            scope = "in-root-project" if files[a]["root"] else "in-dependency-project"
            sig = "order:inversion:multi-item-file" if shape == "multi-item-file" else \
                f"order:inversion:single-item-files:{kind}:{scope}"
            found(sig,
                  f"{files[a]['proj']}/{files[a]['path']} ({', '.join(files[a]['items'])}) is listed before "
                  f"{files[b]['proj']}/{files[b]['path']} ({', '.join(files[b]['items'])}) which it references "
                  f"({kind}, to {to} project)",
                  {"a": a, "b": b, "order": order})
    # std: the generator instantiates $std::gray_encoder; its output must be listed, before every user
    std_users = [u for u, f in files.items() if f["std"] and not f["example"]]
    if std_users:
        bump("std_cases")
    if std_users and target != "bundle":
        g = os.path.join("dependencies", "std", "gray", "gray_encoder.sv")
        if g not in sv:
            found("emit:std-output-missing", f"{g} was not emitted although $std::gray_encoder is instantiated")
        elif g not in listed_outputs:
            found(f"filelist:referenced-file-missing:{target}:std", f"{g} is instantiated by {std_users} but not listed")
        else:
            gi = entries.index(g)
            for u in std_users:
                if u in where and where[u][0][0] in entries and not collided:
                    bump("order_edges_checked")
                    bump("order_edges_to_std")
                    if entries.index(where[u][0][0]) < gi:
                        found("order:inversion:reference-edge:to-std",
                              f"{files[u]['path']} is listed before {g} which it instantiates")
    elif std_users:
        text = sv.get(bundle_rel, "")
        m = re.search(r"^module\s+__std_gray_encoder\b", text, flags=re.M)
        if not m:
            found("filelist:referenced-file-missing:bundle:std", "__std_gray_encoder is instantiated but not in the bundle")
        elif not collided:
            offs = {uid: off for off, uid in reversed(L.markers(text))}
            for u in std_users:
                if u in offs:
                    bump("order_edges_checked")
                    bump("order_edges_to_std")
                    if offs[u] < m.start():
                        found("order:inversion:reference-edge:to-std",
                              f"{files[u]['path']} precedes module __std_gray_encoder in the bundle")
    if listed_outputs is not None:
        unl = [rel for rel in sv if rel.startswith("dependencies" + os.sep) and rel not in listed_outputs]
        bump("dependency_outputs_unlisted", len(unl))
    return {"findings": findings, "counters": cnt, "order": order, "entries": entries[:40]}


def item_reachable_files(case):
    """Files reached from the root project's items when references are followed item by item (the
    granularity sort_filelist works at), as opposed to file by file."""
    owner = {}
    for f in case["files"]:
        for iu in f["item_uids"]:
            owner[iu] = f
    g = case["item_graph"]
    todo = [iu for iu, f in owner.items() if f["root"] and not f["example"]]
    seen = set(todo)
    while todo:
        u = todo.pop()
        for v in g.get(u, []):
            if v not in seen:
                seen.add(v)
                todo.append(v)
    return {owner[iu]["uid"] for iu in seen}


def reachable(case):
    """Files whose outputs the root project's outputs need (file graph closure). A proto-only source emits no
    SystemVerilog, so what it imports is not needed by anything."""
    g = {f["uid"]: ([] if all(x.startswith("proto:") for x in f["items"]) else case["graph"].get(f["uid"], []))
         for f in case["files"]}
    todo = [f["uid"] for f in case["files"] if f["root"] and not f["example"]]
    seen = set(todo)
    while todo:
        u = todo.pop()
        for v in g.get(u, []):
            if v not in seen:
                seen.add(v)
                todo.append(v)
    return seen


def run_case(case, scratch):
    d = os.path.join(scratch, f"c{case['index']}")
    L.rmtree(d)
    root = L.write_case(case, os.path.join(d, "u"))
    cmd = ["build", "--verbose"]
    base = root
    if case.get("out_dir"):
        cmd += ["--out-dir", case["out_dir"]]
        base = os.path.normpath(os.path.join(root, case["out_dir"]))
    build = L.run_veryl(cmd, root, os.path.join(d, "home"))
    res = {"case": case, "build_code": build["code"], "panic": build["panic"], "stderr_tail": L.tail(build["err"]),
           "refused_collision": build["code"] != 0 and "OutputPathCollision" in build["err"]}
    if build["code"] == 0:
        # with --out-dir every output (emitted files, maps, dependencies/, filelist) lives below `base`
        res.update(examine(case, base, build))
    if not os.environ.get("VERIF_KEEP_SCRATCH"):
        L.rmtree(d)
    return res


def main():
    args = Args()
    run = Run(args, "exploration",
              "one case = one generated project universe (3-9 root files in 1-3 sources dirs, 0-3 path dependencies, "
              "optional $std/examples/tests) built once in a fresh tree under one target x sourcemap_target x "
              "filelist_type; non-trivial = build exit 0 and a filelist with >= 2 ordered sources was parsed; "
              "distinct = hash of (config, source tree)")
    run.assume("the emitter copies the leading `// @@SRC:<uid>@@` comment of every source into its output (checked: a "
               "source whose marker is nowhere is reported, never assumed)")
    run.assume("projgen2's file reference graph is the ground truth for 'references' (hard edges: package, interface, "
               "module, generic-argument packages; references to proto packages are not ordering requirements)")
    run.assume("an output without any SystemVerilog token (proto-only source) may be left out of the filelist")
    scratch = run.scratch()

    if args.replay:
        rp = json.load(open(args.replay))
        cases = [rp["case"]["case"]]
    else:
        n = args.budget("cases", 81, 3000)
        cases = None

    def work(i):
        case = cases[i] if cases else make_case(args.seed, i)
        return run_case(case, scratch)

    def handle(i, res, err):
        if err:
            run.inconclusive(f"harness error in case {i}: {err.splitlines()[-1] if err else ''}")
            run.note(err)
            return
        run.eval()
        case = res["case"]
        o = case["opts"]
        cfg = f"{o['target']}/{o['sourcemap']}/{o['filelist']}"
        od = {None: "no-out-dir", "build-out": "out-dir-inside", "../outside/out": "out-dir-outside"}.get(case.get("out_dir"), "out-dir")
        run.seen("out_dir_configs", f"{od}:{o['target']}:{o['sourcemap']}:{layout_class(case)}")
        if case.get("out_dir"):
            run.count("out_dir_cases")
            if layout_class(case) == "equal-relpath-in-two-sources-dirs":
                run.count(f"out_dir_equal_relpath_cases_{o['target']}")
        if res.get("refused_collision"):
            run.count("build_refused_output_path_collision")
            if not collision_expected(case):
                run.violation(f"collision:refused-without-collision:{o['target']}:{layout_class(case)}",
                              f"veryl build reports OutputPathCollision although no two root sources can share an output "
                              f"path  [config {cfg}, {od}, sources {case['sources']}]: {res['stderr_tail'][-300:]}",
                              {"case": case, "how": "write case.tree, cd <dir>/root, veryl build [--out-dir case.out_dir]"})
            return
        if res["build_code"] != 0:
            if res["panic"]:
                run.count("build_panicked")
                run.note(f"case {i} ({cfg}): veryl build panicked (not judged by C25): {res['stderr_tail'][-300:]}")
            else:
                run.count("build_failed")
                run.note(f"case {i} ({cfg}): veryl build failed: {res['stderr_tail'][-400:]}")
            return
        run.count("projects_built")
        run.seen("configs", cfg)
        run.seen("layout_classes", f"{o['target']}:{layout_class(case)}")
        for k, v in res["counters"].items():
            run.count(k, v)
        for ft in case["features"]:
            run.seen("features", ft)
        if len(res.get("order", [])) >= 2:
            run.nontrivial(L.sha(json.dumps([case["opts"], case["tree"]], sort_keys=True).encode()))
        run.sample({"config": cfg, "sources": case["sources"], "layout": layout_class(case),
                    "files": [f"{f['proj']}/{f['path']}: {', '.join(f['items'])}" for f in case["files"]],
                    "graph": case["graph"], "filelist": res.get("entries"), "order": res.get("order")})
        for sig, what, detail in res["findings"]:
            run.violation(sig, f"{what}  [config {cfg}, {od}, sources {case['sources']}]",
                          {"case": case, "finding": what, "detail": detail, "entries": res.get("entries"),
                           "order": res.get("order"),
                           "how": "write case.tree below a directory, cd <dir>/root, veryl build --verbose "
                                  "[--out-dir case.out_dir]"})

    L.run_cases(len(cases) if cases else n, L.jobs(args), work, handle)
    if args.replay:
        run.finish([])
    run.finish([("projects_built", 12), ("filelists_parsed", 12), ("order_edges_checked", 40),
                ("configs", 9), ("sources_placed_once", 40), ("bundles_parsed", 3), ("maps_matched", 15),
                ("out_dir_cases", 15), ("out_dir_configs", 15), ("out_dir_equal_relpath_cases_source", 3),
                ("out_dir_equal_relpath_cases_directory", 3), ("out_dir_equal_relpath_cases_bundle", 3)])


if __name__ == "__main__":
    main()
