"""semverref -- a small independent model of `semver::VersionReq::matches` for release versions.

Written from the documented semantics (Cargo book "Specifying dependencies" / semver crate docs),
NOT from the crate's field-by-field code: every comparator is turned into one half-open interval
[lo, hi) over (major, minor, patch) triples and a requirement is the intersection.
Pre-release versions / comparators are *not modelled* (callers must not generate them).
"""
import re

INF = (1 << 62, 0, 0)


def parse_version(s):
    m = re.fullmatch(r"(\d+)\.(\d+)\.(\d+)", s.strip())
    if not m:
        raise ValueError(f"unsupported version {s!r}")
    return tuple(int(x) for x in m.groups())


def fmt(v):
    return ".".join(str(x) for x in v)


def _partial(s):
    """'1', '1.2', '1.2.3', '1.*', '1.2.*', '*'  ->  list of ints (length 0..3)."""
    s = s.strip()
    parts = s.split(".")
    out = []
    for p in parts:
        if p in ("*", "x", "X"):
            break
        if not re.fullmatch(r"\d+", p):
            raise ValueError(f"unsupported comparator version {s!r}")
        out.append(int(p))
    if len(out) > 3:
        raise ValueError(s)
    return out


def _floor(p):
    return tuple(p + [0] * (3 - len(p)))


def _bump(p, idx):
    """Smallest triple strictly above every version that starts with p[:idx+1]."""
    q = list(p[: idx + 1])
    q[idx] += 1
    return tuple(q + [0] * (3 - len(q)))


def comparator_range(c):
    c = c.strip()
    m = re.match(r"^(=|>=|<=|>|<|\^|~)?\s*(.*)$", c)
    op, rest = m.group(1), m.group(2)
    wildcard = any(x in ("*", "x", "X") for x in rest.split("."))
    p = _partial(rest)
    if wildcard:
        if op not in (None, "="):
            raise ValueError(f"unsupported wildcard with operator {c!r}")
        if not p:
            return (0, 0, 0), INF
        return _floor(p), _bump(p, len(p) - 1)
    if not p:
        raise ValueError(c)
    if op is None or op == "^":
        # caret: may change everything right of the left-most non-zero component
        lo = _floor(p)
        idx = None
        for i, x in enumerate(p):
            if x != 0:
                idx = i
                break
        if idx is None:
            idx = len(p) - 1          # ^0 -> <1.0.0, ^0.0 -> <0.1.0, ^0.0.0 -> <0.0.1
        return lo, _bump(p, idx)
    if op == "~":
        lo = _floor(p)
        idx = 0 if len(p) == 1 else 1  # ~1 -> <2.0.0 ; ~1.2 / ~1.2.3 -> <1.3.0
        return lo, _bump(p, idx)
    if op == "=":
        return _floor(p), _bump(p, len(p) - 1)
    if op == ">=":
        return _floor(p), INF
    if op == ">":
        return _bump(p, len(p) - 1), INF
    if op == "<":
        return (0, 0, 0), _floor(p)
    if op == "<=":
        return (0, 0, 0), _bump(p, len(p) - 1)
    raise ValueError(c)


def req_ranges(req):
    req = req.strip()
    if req == "":
        raise ValueError("empty requirement")
    return [comparator_range(c) for c in req.split(",")]


def matches(req, version):
    v = parse_version(version) if isinstance(version, str) else tuple(version)
    for lo, hi in req_ranges(req):
        if not (lo <= v < hi):
            return False
    return True


def best(req, versions):
    """Highest version (string) among `versions` matching `req`, or None."""
    ok = [parse_version(v) for v in versions if matches(req, v)]
    return fmt(max(ok)) if ok else None


_SELFTEST = [
    # (req, version, expected)  -- from the Cargo book tables
    ("1.2.3", "1.2.3", True), ("1.2.3", "1.9.0", True), ("1.2.3", "2.0.0", False), ("1.2.3", "1.2.2", False),
    ("1.2", "1.2.0", True), ("1.2", "1.1.9", False), ("1", "1.0.0", True), ("1", "2.0.0", False),
    ("0.2.3", "0.2.3", True), ("0.2.3", "0.2.9", True), ("0.2.3", "0.3.0", False),
    ("0.0.3", "0.0.3", True), ("0.0.3", "0.0.4", False), ("0.0", "0.0.7", True), ("0.0", "0.1.0", False),
    ("0", "0.9.9", True), ("0", "1.0.0", False), ("^1.2.3", "1.3.0", True), ("^0.2", "0.2.5", True), ("^0.2", "0.3.0", False),
    ("~1.2.3", "1.2.9", True), ("~1.2.3", "1.3.0", False), ("~1.2", "1.2.0", True), ("~1.2", "1.3.0", False),
    ("~1", "1.9.9", True), ("~1", "2.0.0", False), ("~0.0.3", "0.0.9", True), ("~0.0.3", "0.1.0", False),
    ("*", "7.1.2", True), ("1.*", "1.9.0", True), ("1.*", "2.0.0", False), ("1.2.*", "1.2.7", True), ("1.2.*", "1.3.0", False),
    ("=1.2.3", "1.2.3", True), ("=1.2.3", "1.2.4", False), ("=1.2", "1.2.9", True), ("=1.2", "1.3.0", False), ("=1", "1.5.0", True),
    (">=1.2.0", "1.2.0", True), (">=1.2.0", "1.1.9", False), (">1.2.0", "1.2.0", False), (">1.2.0", "1.2.1", True),
    (">1.2", "1.2.9", False), (">1.2", "1.3.0", True), (">1", "1.9.9", False), (">1", "2.0.0", True),
    ("<2.0.0", "1.9.9", True), ("<2.0.0", "2.0.0", False), ("<=1.2.3", "1.2.3", True), ("<=1.2.3", "1.2.4", False),
    ("<=1.2", "1.2.9", True), ("<=1.2", "1.3.0", False), ("<1.2", "1.1.9", True), ("<1.2", "1.2.0", False),
    (">=1.2.0, <1.5.0", "1.4.9", True), (">=1.2.0, <1.5.0", "1.5.0", False), (">=1.2.0, <1.5.0", "1.1.0", False),
    (">=0.1.0", "3.0.0", True), ("^0.0.0", "0.0.0", True), ("^0.0.0", "0.0.1", False),
]


def selftest():
    bad = [(r, v, e) for (r, v, e) in _SELFTEST if matches(r, v) != e]
    return bad


if __name__ == "__main__":
    b = selftest()
    print("semverref selftest:", "ok" if not b else b)
