#!/usr/bin/env python3
"""C05 -- Crashes and cache damage never leave a build wrong.

Fault enumeration through the real `veryl` CLI.  A generated project runs a short edit/command history in the
incremental twin directory (`inc/`, keeps `.build`).  Then

  (a) crash points: a build/test step is traced once with `strace -f -y` to list the file-affecting syscalls
      it performs below the project directory (openat for writing, write, rename*, unlink*, mkdir*, fchmod,
      ftruncate).  For each selected point K the pre-step state is restored (same absolute path, mtimes
      preserved) and the step is re-run under `strace -e inject=<syscall>:signal=SIGKILL:when=k`, which kills
      the process right before that syscall takes effect.  "torn" variants additionally leave a random prefix
      of the content the killed write would have produced (the kill-before-write leaves the file empty).
  (b) damage: every file under `.build` (cache/manifest.toml, fragment and diagnostics blobs, info.toml,
      test_timings, lock files) is truncated {0,1,len/2,len-1}, bit/byte-flipped (magic, schema word, length
      prefixes, TOML structure, random), replaced by valid-but-wrong content (another file's blob, swapped
      manifest entries, a manifest/info of another project, stale copies) or deleted.

After the fault (optionally followed by further edits: none / revert the step's source edits incl. mtimes /
one more random edit) the recovery command runs in `inc/` and is judged by the clean twin (`cln/`, wiped, same
sources).  Violation = the recovery command panics (exit 101 / "panicked at" / signal), or it succeeds and an
output differs from the clean build's.  Every fault has a *control*: the same recovery without the fault; a
difference the control shows too is an incremental-build divergence (C04's business) and is not attributed to
the fault.

    ./check C05 [--set histories=N] [--set crash=N] [--set damage=N] [--set jobs=N] [--set sabotage=1]
    ./check C05 --replay replay/C05/<sig>.json
"""
import copy
import hashlib
import json
import multiprocessing
import os
import re
import shutil
import subprocess
import sys
import traceback

sys.path.insert(0, os.path.dirname(os.path.abspath(__file__)))
from vcommon import Args, Run, Rng, VERYL, cli_env, panicked                    # noqa: E402
from projgen import ProjectGen, HistoryGen, apply_edit, apply_edit_to_map      # noqa: E402
import twin                                                                    # noqa: E402

PROP = "C05"
TRACE_SET = ("openat,write,writev,pwrite64,rename,renameat,renameat2,unlink,unlinkat,mkdir,mkdirat,ftruncate,truncate,"
             "fchmod,chmod,linkat,symlinkat")
RE_LINE = re.compile(r"^(\d+)\s+(\w+)\((.*)$")
RE_FDPATH = re.compile(r"^\d+<([^>]*)>")
RE_STR = re.compile(r'"((?:[^"\\]|\\.)*)"')


# ------------------------------------------------------------------------------------------------
# strace helpers
# ------------------------------------------------------------------------------------------------

def strace_run(root, home, argv, trace_path, inject=None, timeout=600, only_path=None):
    """inject = (syscall, K): SIGKILL right before the K-th invocation of that syscall.  With only_path (strace -P) only
    syscalls that touch that path are traced *and counted*, which makes K independent of log output and of the
    (run-to-run varying) fragment blob writes."""
    cmd = ["strace", "-f", "-y", "-qq", "-s", "8", "-o", trace_path, "-e", f"trace={TRACE_SET}"]
    if only_path:
        cmd += ["-P", only_path]
    if inject:
        cmd += ["-e", f"inject={inject[0]}:signal=SIGKILL:when={inject[1]}"]
    cmd += [VERYL] + list(argv)
    try:
        p = subprocess.run(cmd, cwd=root, env=cli_env(home), stdout=subprocess.PIPE, stderr=subprocess.PIPE, timeout=timeout)
        return p.returncode, p.stdout.decode("utf-8", "replace"), p.stderr.decode("utf-8", "replace")
    except subprocess.TimeoutExpired:
        return None, "", ""


def parse_trace(trace_path, root):
    """Events of the main tracee that modify something below `root`.
    Returns (events, killed, written_paths).  event = {sys, k, path, what}"""
    events = []
    counts = {}
    pcounts = {}
    main = None
    killed = False
    written = []
    prefix = root.rstrip("/") + "/"
    try:
        lines = open(trace_path, errors="replace").read().splitlines()
    except OSError:
        return [], False, []
    for ln in lines:
        if "+++ killed by SIGKILL" in ln:
            killed = True
        m = RE_LINE.match(ln)
        if not m:
            continue
        pid, sysname, rest = m.group(1), m.group(2), m.group(3)
        if main is None:
            main = pid
        if pid != main:
            continue
        k = counts.get(sysname, 0) + 1
        counts[sysname] = k
        path = None
        what = None
        if sysname == "openat":
            strs = RE_STR.findall(rest)
            p = strs[0] if strs else ""
            if any(f in rest for f in ("O_CREAT", "O_TRUNC", "O_WRONLY", "O_RDWR")) and p.startswith(prefix):
                path, what = p, "open_w"
                if p not in written:
                    written.append(p)
        elif sysname in ("write", "writev", "pwrite64", "fchmod", "ftruncate"):
            fm = RE_FDPATH.match(rest)
            if fm and fm.group(1).startswith(prefix):
                path, what = fm.group(1), sysname
        else:
            for s in RE_STR.findall(rest):
                if s.startswith(prefix):
                    path, what = s, sysname
        if path is not None:
            pk = pcounts.get((sysname, path), 0) + 1
            pcounts[(sysname, path)] = pk
            events.append({"sys": sysname, "k": k, "pk": pk, "path": path[len(prefix):], "what": what,
                           "stable": ".tmp" not in os.path.basename(path)})
    # temp files of atomic_write: the later rename tells which final name the bytes were meant for
    dest = {}
    for ln in lines:
        m = RE_LINE.match(ln)
        if m and m.group(1) == main and m.group(2) in ("rename", "renameat", "renameat2"):
            ps = [x for x in RE_STR.findall(m.group(3)) if x.startswith(prefix)]
            if len(ps) >= 2:
                dest[ps[0][len(prefix):]] = ps[-1][len(prefix):]
    for e in events:
        e["dest"] = dest.get(e["path"], e["path"])
    return events, killed, [w[len(prefix):] for w in written]


def path_class(rel):
    if rel.startswith(".build/cache/fragments"):
        return "fragment" if not os.path.basename(rel).startswith(".tmp") else "fragment_tmp"
    if rel.startswith(".build/cache/manifest"):
        return "manifest"
    if rel.startswith(".build/cache/.tmp"):
        return "manifest_tmp"
    if rel.startswith(".build/cache"):
        return "cache_other"
    if rel == ".build/info.toml":
        return "info"
    if rel.startswith(".build"):
        return "dot_build_other"
    if rel.endswith(".sv.map"):
        return "out_map"
    if rel.endswith(".sv"):
        return "out_sv"
    if rel.endswith(".f") or rel.endswith(".list.rb"):
        return "filelist"
    if rel == "Veryl.lock":
        return "lockfile"
    return "other"


# ------------------------------------------------------------------------------------------------
# snapshots (same absolute path, mtimes preserved)
# ------------------------------------------------------------------------------------------------

def snapshot(src, dst):
    shutil.rmtree(dst, ignore_errors=True)
    shutil.copytree(src, dst, symlinks=True, copy_function=shutil.copy2)


def restore(snap, dst):
    shutil.rmtree(dst, ignore_errors=True)
    shutil.copytree(snap, dst, symlinks=True, copy_function=shutil.copy2)


def source_state(root, files):
    st = {}
    for p in files:
        full = os.path.join(root, p)
        try:
            s = os.stat(full)
            st[p] = (open(full).read(), s.st_atime, s.st_mtime)
        except OSError:
            st[p] = None
    return st


# ------------------------------------------------------------------------------------------------
# damage
# ------------------------------------------------------------------------------------------------

def list_dot_build(root):
    out = []
    base = os.path.join(root, ".build")
    for dp, dn, fn in os.walk(base):
        dn.sort()
        for f in sorted(fn):
            out.append(os.path.relpath(os.path.join(dp, f), root))
    return out


def manifest_owners(root):
    """{blob rel path: source path relative to root (or absolute for std files)} from manifest.toml."""
    own = {}
    try:
        txt = open(os.path.join(root, ".build/cache/manifest.toml")).read()
    except OSError:
        return own
    cur = None
    for line in txt.splitlines():
        m = re.match(r'^\[files\."(.*)"\]$', line)
        if m:
            cur = m.group(1)
            if cur.startswith(root.rstrip("/") + "/"):
                cur = cur[len(root.rstrip("/")) + 1:]
            continue
        m = re.match(r'^(fragment|diagnostics) = "([^"]+)"', line)
        if m and cur:
            own[".build/cache/" + m.group(2)] = f"{m.group(1)} of {cur}"
    return own


def manifest_roles(root):
    """{blob rel path: 'fragment'|'diagnostics'} from manifest.toml (text scan, no TOML dependency)."""
    roles = {}
    try:
        txt = open(os.path.join(root, ".build/cache/manifest.toml")).read()
    except OSError:
        return roles
    for m in re.finditer(r'^(fragment|diagnostics) = "([^"]+)"', txt, re.M):
        roles[".build/cache/" + m.group(2)] = m.group(1)
    return roles


def damage_kinds_for(rel, size, roles):
    cls = path_class(rel)
    kinds = ["delete", "trunc0"]
    if size >= 2:
        kinds += ["trunc1", "trunc_half", "trunc_m1", "flip_random", "flip_bit_random"]
    if cls == "fragment" and size > 12:
        kinds += ["flip_magic", "flip_schema", "flip_len_prefix", "flip_len_prefix2", "swap_blob", "garbage_tail", "zero_fill"]
    if cls == "manifest":
        kinds += ["toml_struct", "toml_hash_digit", "toml_swap_fragments", "toml_point_same_blob", "toml_drop_line",
                  "foreign_manifest", "toml_schema", "toml_dependents_cleared", "toml_tests_cleared"]
    if cls == "info":
        kinds += ["toml_struct", "foreign_info", "info_future", "info_past", "toml_drop_line"]
    if rel.endswith("test_timings"):
        kinds += ["garbage_text"]
    return kinds


def apply_damage(root, rel, kind, rng, roles):
    """Applies one damage operation; returns a short description or None when not applicable."""
    full = os.path.join(root, rel)
    try:
        data = open(full, "rb").read()
    except OSError:
        return None
    n = len(data)

    def put(b):
        with open(full, "wb") as f:
            f.write(b)

    if kind == "delete":
        os.remove(full)
        return "deleted"
    if kind == "trunc0":
        put(b"")
        return "truncated to 0"
    if kind == "trunc1":
        put(data[:1])
        return "truncated to 1"
    if kind == "trunc_half":
        put(data[:n // 2])
        return f"truncated to {n // 2}/{n}"
    if kind == "trunc_m1":
        put(data[:n - 1])
        return f"truncated to {n - 1}/{n}"
    if kind in ("flip_random", "flip_bit_random", "flip_magic", "flip_schema", "flip_len_prefix", "flip_len_prefix2"):
        if n == 0:
            return None
        if kind == "flip_magic":
            off = rng.below(min(4, n))
        elif kind == "flip_schema":
            off = 4 + rng.below(4) if n > 8 else rng.below(n)
        elif kind == "flip_len_prefix":
            off = 8 + rng.below(min(4, n - 8)) if n > 9 else rng.below(n)
        elif kind == "flip_len_prefix2":
            off = 8 + rng.below(min(64, n - 8)) if n > 9 else rng.below(n)
        else:
            off = rng.below(n)
        b = bytearray(data)
        if kind == "flip_bit_random":
            b[off] ^= 1 << rng.below(8)
        elif kind in ("flip_len_prefix", "flip_len_prefix2") and rng.bool():
            b[off] = rng.pick([0xFF, 0x80, 0x7F, 0x00, 0xFE])
        else:
            b[off] ^= rng.pick([0xFF, 0x01, 0x80, 0x20])
        put(bytes(b))
        return f"{kind} at offset {off}/{n}"
    if kind == "garbage_tail":
        cut = 8 + rng.below(max(1, n - 8))
        put(data[:cut] + bytes(rng.below(256) for _ in range(n - cut)))
        return f"random bytes from offset {cut}"
    if kind == "zero_fill":
        put(data[:8] + b"\0" * (n - 8))
        return "payload zero-filled"
    if kind == "swap_blob":
        owners = manifest_owners(root)
        others = sorted((p for p in roles if p != rel and os.path.isfile(os.path.join(root, p))), key=lambda p: owners.get(p, p))
        if not others:
            return None
        want = getattr(rng, "want_other", None)
        o = next((p for p in others if owners.get(p) == want), None) if want else None
        if o is None:
            o = rng.pick(others)
        put(open(os.path.join(root, o), "rb").read())
        return f"[{owners.get(rel)}] replaced by the valid blob [{owners.get(o)}]"
    if kind == "garbage_text":
        put(b"\xff\xfe not a timing file\nname notanumber\n" + data[:n // 2])
        return "garbage text"
    txt = data.decode("utf-8", "replace")
    lines = txt.split("\n")
    if kind == "toml_struct":
        cands = [i for i, c in enumerate(txt) if c in '=[]"']
        if not cands:
            return None
        i = rng.pick(cands)
        put((txt[:i] + rng.pick([" ", "(", "'", "#"]) + txt[i + 1:]).encode())
        return f"TOML structure char at {i} replaced"
    if kind == "toml_drop_line":
        idx = [i for i, l in enumerate(lines) if l.strip()]
        if not idx:
            return None
        i = rng.pick(idx)
        put("\n".join(lines[:i] + lines[i + 1:]).encode())
        return f"dropped line {i}: {lines[i][:60]}"
    if kind == "toml_hash_digit":
        ms = list(re.finditer(r'^hash = "([0-9a-f]+)"', txt, re.M))
        if not ms:
            return None
        m = rng.pick(ms)
        pos = m.start(1) + rng.below(len(m.group(1)))
        c = txt[pos]
        put((txt[:pos] + ("0" if c != "0" else "1") + txt[pos + 1:]).encode())
        return "one hex digit of a file hash changed"
    if kind in ("toml_swap_fragments", "toml_point_same_blob"):
        ms = list(re.finditer(r'^fragment = "([^"]+)"', txt, re.M))
        if len(ms) < 2:
            return None
        a = rng.pick(ms)
        b = rng.pick([m for m in ms if m.group(1) != a.group(1)] or ms)
        if a.group(1) == b.group(1):
            return None
        if kind == "toml_point_same_blob":
            new = txt[:a.start(1)] + b.group(1) + txt[a.end(1):]
            put(new.encode())
            return "one entry's fragment path now points at another entry's (valid) blob"
        first, second = (a, b) if a.start() < b.start() else (b, a)
        new = (txt[:first.start(1)] + second.group(1) + txt[first.end(1):second.start(1)] + first.group(1) + txt[second.end(1):])
        put(new.encode())
        return "fragment paths of two entries swapped"
    if kind == "toml_schema":
        put(re.sub(r"^schema = \d+", f"schema = {rng.pick([0, 1, 3, 4294967295])}", txt, flags=re.M).encode())
        return "schema number changed"
    if kind == "toml_dependents_cleared":
        new, cnt = re.subn(r"^dependents = \[.*\]$", "dependents = []", txt, flags=re.M)
        put(new.encode())
        return f"all dependents lists emptied ({cnt})"
    if kind == "toml_tests_cleared":
        new, cnt = re.subn(r"^tests = \[.*\]$", "tests = []", txt, flags=re.M)
        put(new.encode())
        return f"all tests lists emptied ({cnt})"
    if kind == "foreign_manifest":
        put(('schema = 2\nglobal_key = "' + "ab" * 32 + '"\n\n[files."/somewhere/else/src/a.veryl"]\nhash = "' + "cd" * 32 +
             '"\nfragment = "fragments/00/' + "00" * 32 + '.frag"\ndependents = []\ntests = []\n').encode())
        return "replaced by a well-formed manifest of another project"
    if kind == "foreign_info":
        put(b'# foreign\n[generated_files."/somewhere/else/target/a.sv"]\nsecs_since_epoch = 1700000000\nnanos_since_epoch = 1\n')
        return "replaced by a well-formed info.toml of another project"
    if kind in ("info_future", "info_past"):
        val = "4102444800" if kind == "info_future" else "1000000000"
        put(re.sub(r"^secs_since_epoch = \d+", f"secs_since_epoch = {val}", txt, flags=re.M).encode())
        return f"all generation timestamps set to {'2100' if kind == 'info_future' else '2001'}"
    return None


# ------------------------------------------------------------------------------------------------
# one history with its faults
# ------------------------------------------------------------------------------------------------

class Case:
    def __init__(self, case_dir, template_home, sabotage=False):
        self.dir = case_dir
        self.inc = os.path.join(case_dir, "inc")
        self.cln = os.path.join(case_dir, "cln")
        self.home = os.path.join(case_dir, "home")
        self.snap = os.path.join(case_dir, "snap")
        self.trace = os.path.join(case_dir, "trace.txt")
        shutil.rmtree(case_dir, ignore_errors=True)
        os.makedirs(self.inc)
        twin.seed_home(self.home, template_home)
        self.clean_cache = {}
        self.counters = {}
        self.sets = {}
        self.violations = []
        self.inconclusive = []
        self.fault_log = []
        self.sabotage = sabotage
        self.sabotaged = False

    def bump(self, k, n=1):
        self.counters[k] = self.counters.get(k, 0) + n

    def seen(self, k, v):
        self.sets.setdefault(k, set()).add(v)

    def clean(self, files, argv):
        key = hashlib.sha256(json.dumps([sorted(files.items()), argv]).encode()).hexdigest()
        if key not in self.clean_cache:
            twin.wipe_and_materialize(self.cln, files)
            self.clean_cache[key] = twin.run_step(self.cln, self.home, argv, set(files))
            self.bump("clean_builds")
        return self.clean_cache[key]

    def judge(self, files, argv, pre_digest=None, fault_run=False):
        """Runs the recovery command in inc and compares with the clean twin.  Returns (result, mismatches)."""
        sources = set(files)
        r = twin.run_step(self.inc, self.home, argv, sources)
        c = self.clean(files, argv)
        if fault_run and self.sabotage is True and not self.sabotaged and r.code == 0 and argv[0] in ("build", "test"):
            svs = sorted(k for k in r.outputs if k.endswith(".sv") and k in c.outputs)
            if svs:
                r.outputs[svs[0]] = r.outputs[svs[0]][: len(r.outputs[svs[0]]) // 2]
                self.sabotaged = "armed"
        mm = twin.compare(argv, r, c, self.inc, self.cln, pre_digest=None)
        return r, c, mm


def mm_key(m):
    return (m["kind"], m.get("rel"), m["cls"] if m["kind"].startswith("diag") else "")


def output_mismatches(mm):
    return [m for m in mm if m["kind"] in ("output_differs", "output_missing", "panic")]


def run_history(job):
    seed, case, scratch, template_home, opts = job
    try:
        return _run_history(seed, case, scratch, template_home, opts)
    except Exception:
        return {"case": case, "error": traceback.format_exc(), "counters": {}, "sets": {}, "violations": [], "inconclusive": []}


def apply_variant(C, variant, files, pre_edit_state, step_edits, extra_edits):
    """Further edits between the fault and the recovery command.  Returns the new source map."""
    files = dict(files)
    if variant == "revert":
        # put the sources back to what they were before this step's edits (content and mtime), like restoring a backup
        for p, st in pre_edit_state.items():
            full = os.path.join(C.inc, p)
            if st is None:
                if os.path.exists(full):
                    os.remove(full)
                files.pop(p, None)
            else:
                os.makedirs(os.path.dirname(full), exist_ok=True)
                with open(full, "w") as f:
                    f.write(st[0])
                os.utime(full, (st[1], st[2]))
                files[p] = st[0]
        for p in [p for p in files if p not in pre_edit_state]:
            full = os.path.join(C.inc, p)
            if os.path.exists(full):
                os.remove(full)
            del files[p]
    elif variant == "edit":
        for e in extra_edits:
            apply_edit(C.inc, e)
            apply_edit_to_map(files, e)
    return files


def _run_history(seed, case, scratch, template_home, opts):
    rng = Rng.for_case(seed, PROP, case)
    P = ProjectGen(rng.fork(), p_std=(1, 10)).generate()
    H = HistoryGen(rng.fork(), P, weights={"rm_output": 16, "toml": 9, "err_on": 3, "delete_referenced": 1, "rm_filelist": 3,
                                           "old_mtime": 2, "edit_output": 0},
                   cmds={"build": 70, "check": 8, "test": 12, "clean": 2, "build_file": 0, "check_file": 0, "test_filter": 2},
                   max_edits=3)
    C = Case(os.path.join(scratch, f"h{case}"), template_home, sabotage=opts.get("sabotage", False))
    files = dict(P.files())
    files0 = dict(files)
    twin.wipe_and_materialize(C.inc, files)
    nsteps = opts["steps"]
    crash_budget = opts["crash"]
    damage_budget = opts["damage"]
    frng = rng.fork()
    history = []
    # step 0: initial build
    steps = [{"edits": [], "cmd": ["build"], "kinds": ["initial"], "expect_ok": True}]
    H_at = [copy.deepcopy(H)]        # generator state right after step i was generated (model == disk after step i's edits)
    for _ in range(nsteps - 1):
        st = H.next_step() if not (H.P.has_defect() or H.P.dangling()) or rng.chance(1, 3) else H.repair_step()
        steps.append(st)
        H_at.append(copy.deepcopy(H))
    crash_steps = [i for i, st in enumerate(steps) if i >= 1 and st["cmd"][0] in ("build", "test") and st["expect_ok"]]
    # prefer steps that delete outputs / change options: they write the most
    crash_steps.sort(key=lambda i: (-sum(1 for k in steps[i]["kinds"] if k in ("rm_output", "toml", "rm_filelist", "change", "add")), i))
    crash_steps = sorted(crash_steps[:opts["crash_steps"]])
    sample = {"case": case, "files": sorted(files0)[:10], "history": [], "faults": []}

    for si, st in enumerate(steps):
        pre_edit_state = source_state(C.inc, set(files) | {e.get("path") for e in st["edits"] if e.get("path")} |
                                      {e.get("to") for e in st["edits"] if e.get("to")})
        for e in st["edits"]:
            apply_edit(C.inc, e)
            apply_edit_to_map(files, e)
        argv = st["cmd"]
        if si in crash_steps and crash_budget > 0:
            # make the traced step write files for the first time: variants rotate with the history index
            Ps = H_at[si].P
            t = Ps.opts["target"]
            shape = ("all_outputs_deleted", "outputs_and_filelist_deleted", "some_outputs_deleted", "cold_cache_and_outputs_deleted")[(case + si) % 4]
            extra = []
            if t["type"] == "directory" and shape != "some_outputs_deleted":
                extra.append({"op": "rm_dir", "path": t["path"]})
                sm = Ps.opts.get("sourcemap_target", {})
                if sm.get("type") == "directory":
                    extra.append({"op": "rm_dir", "path": sm["path"]})
            else:
                outs = Ps.outputs()
                frng.shuffle(outs)
                extra += [{"op": "rm_output", "path": o} for o in outs[:max(2, len(outs) // 2)]]
            if shape == "outputs_and_filelist_deleted":
                extra.append({"op": "rm_output", "path": f"{Ps.name}.f"})
            if shape == "cold_cache_and_outputs_deleted":
                extra.append({"op": "rm_dir", "path": ".build"})
            for e in extra:
                apply_edit(C.inc, e)
            st = dict(st, edits=st["edits"] + extra, kinds=st["kinds"] + [f"first_write:{shape}"])
            C.bump(f"crash_step_shape_{shape}")
        history.append({"edits": st["edits"], "cmd": argv})
        sample["history"].append({"kinds": st["kinds"], "cmd": " ".join(argv)})
        if si in crash_steps and crash_budget > 0:
            crash_budget -= crash_faults(C, frng, H_at[si], files, files0, history, st, argv, pre_edit_state, min(crash_budget, opts["crash_per_step"]),
                                         sample, opts)
            # crash_faults leaves inc restored to the pre-step snapshot
        code, out, err = twin.veryl(argv, cwd=C.inc, home=C.home)
        C.bump("history_steps")
        if code is None:
            C.inconclusive.append(f"history step {si} timed out")
            break
    # damage faults on the final state (plus one repair step so that the sources build)
    if H.P.has_defect() or H.P.dangling():
        st = H.repair_step()
        for e in st["edits"]:
            apply_edit(C.inc, e)
            apply_edit_to_map(files, e)
        history.append({"edits": st["edits"], "cmd": ["build"]})
        twin.veryl(["build"], cwd=C.inc, home=C.home)
    if damage_budget > 0:
        damage_faults(C, frng, H, files, files0, history, damage_budget, sample, opts)
    shutil.rmtree(C.dir, ignore_errors=True)
    return {"case": case, "counters": C.counters, "sets": {k: sorted(v) for k, v in C.sets.items()}, "violations": C.violations,
            "inconclusive": C.inconclusive, "sample": sample, "shape": P.shape(), "fault_log": C.fault_log[:6]}


def pick_points(rng, events, n, hot=()):
    """Selection when a step has more crash points than budget: half of the budget goes to first-time writes (the final name
    does not exist before the command: deleted outputs, cold cache, new files), one per destination class first; then writes
    to outputs deleted by this step, the first and the last point, the first point of every class (in-place output writes and
    manifest/info first), then random."""
    idx = list(range(len(events)))
    if len(idx) <= n:
        return idx
    chosen = set()
    fw = [i for i, e in enumerate(events) if e.get("first") and e["sys"] in ("write", "writev", "pwrite64")
          and path_class(e["dest"]) in ("out_sv", "out_map", "filelist", "info", "manifest", "fragment")]
    order = {"out_sv": 0, "out_map": 1, "manifest": 2, "info": 3, "filelist": 4, "fragment": 5}
    seen_fw = set()
    for i in sorted(fw, key=lambda i: (order[path_class(events[i]["dest"])], i)):
        c = path_class(events[i]["dest"])
        if c not in seen_fw and len(chosen) < (n + 1) // 2:
            seen_fw.add(c)
            chosen.add(i)
    fw2 = [i for i in fw if i not in chosen]
    rng.shuffle(fw2)
    for i in fw2:
        if len(chosen) < (n + 1) // 2:
            chosen.add(i)
    for i, e in enumerate(events):
        if e["path"] in hot and e["sys"] == "write" and len(chosen) < n:
            chosen.add(i)
    for i in (0, len(idx) - 1):
        if len(chosen) < n:
            chosen.add(i)
    seen_cls = set()
    prio = {("out_sv", "write"): 0, ("out_map", "write"): 1, ("filelist", "write"): 2, ("info", "write"): 3, ("manifest", "renameat"): 4,
            ("fragment", "unlink"): 5, ("manifest_tmp", "write"): 6, ("fragment", "renameat"): 7, ("lockfile", "write"): 8}
    firsts = []
    for i, e in enumerate(events):
        c = (path_class(e["path"]), e["sys"])
        if c not in seen_cls:
            seen_cls.add(c)
            firsts.append((prio.get(c, 50), i))
    for _, i in sorted(firsts):
        if len(chosen) < n:
            chosen.add(i)
    rest = [i for i in idx if i not in chosen]
    rng.shuffle(rest)
    for i in rest:
        if len(chosen) >= n:
            break
        chosen.add(i)
    return sorted(chosen)


def variant_for(rng):
    x = rng.below(10)
    return "none" if x < 6 else ("revert" if x < 8 else "edit")


def make_extra_edits(H, rng):
    H2 = copy.deepcopy(H)
    H2.rng = rng.fork()
    H2.w.update({"err_on": 0, "delete_referenced": 0, "rm_output": 0, "rm_filelist": 0, "edit_output": 0})
    st = H2.next_step(cmd=["build"])
    if not st["expect_ok"]:
        return []
    return st["edits"]


def report(C, sig, what, replay):
    C.violations.append({"signature": sig, "what": what, "replay": replay})


def crash_faults(C, rng, H, files, files0, history, st, argv, pre_edit_state, budget, sample, opts):
    """Enumerates crash points of the current step.  Leaves inc == pre-step snapshot.  Returns #faults used."""
    snapshot(C.inc, C.snap)
    rc, out, err = strace_run(C.inc, C.home, argv, C.trace)
    events, killed, written = parse_trace(C.trace, C.inc)
    C.bump("steps_traced")
    if rc != 0 or not events:
        C.bump("steps_traced_without_events" if rc == 0 else "steps_traced_failing")
        restore(C.snap, C.inc)
        return 0
    C.bump("crash_points_enumerated", len(events))
    for e in events:
        C.seen("crash_point_classes", f"{e['sys']}:{path_class(e['path'])}")
        # first-time write: the final name the bytes are meant for does not exist before the command starts
        e["first"] = e["sys"] in ("openat", "write", "writev", "pwrite64", "rename", "renameat", "renameat2", "fchmod") and \
            not os.path.exists(os.path.join(C.snap, e["dest"]))
    C.bump("crash_points_enumerated_first_write", sum(1 for e in events if e["first"]))
    post_snap = C.snap + "_post"
    snapshot(C.inc, post_snap)
    if os.environ.get("C05_DEBUG_DET"):
        restore(C.snap, C.inc)
        rcx, _, errx = strace_run(C.inc, C.home, argv, C.trace)
        evx, _, _ = parse_trace(C.trace, C.inc)
        a = [(e["sys"], e["k"], e["path"]) for e in events]
        b = [(e["sys"], e["k"], e["path"]) for e in evx]
        first = next((i for i in range(min(len(a), len(b))) if a[i][:2] != b[i][:2] or path_class(a[i][2]) != path_class(b[i][2])), None)
        C.fault_log.append(f"DET immediate rerun: {len(a)} vs {len(b)} events; first diff {first}: {a[first] if first is not None else ''} | {b[first] if first is not None else ''}; edits={[(e['op'], e.get('path')) for e in st['edits']]}; kinds={st['kinds']}")
        la = [l for l in err.splitlines()]
        lb = [l for l in errx.splitlines()]
        C.fault_log.append(f"DET stderr: {[l for l in la if l not in lb][:4]} | {[l for l in lb if l not in la][:4]}")
    recovery = ["build"]
    # controls (no fault): the step completed normally, then [variant], then the recovery command
    extra_edits = make_extra_edits(H, rng)
    controls = {}

    def control(variant):
        if variant not in controls:
            restore(post_snap, C.inc)
            f2 = apply_variant(C, variant, files, pre_edit_state, st["edits"], extra_edits)
            r, c, mm = C.judge(f2, recovery)
            controls[variant] = ({mm_key(m) for m in mm}, f2, c.code)
            C.bump("control_runs")
            if mm:
                C.bump("controls_diverged_(C04_matter)")
        return controls[variant]

    def control_all(variant):
        """Mismatches that need no crash: the step completed normally, or the step never ran (a kill before the first
        effect).  What either shows is an incremental-build matter (C04), not damage done by the crash."""
        keys, f2, code = control(variant)
        k2 = "skip:" + variant
        if k2 not in controls:
            restore(C.snap, C.inc)
            f2s = apply_variant(C, variant, files, pre_edit_state, st["edits"], extra_edits)
            r, c, mm = C.judge(f2s, recovery)
            controls[k2] = {mm_key(m) for m in mm}
            C.bump("control_runs")
            if mm:
                C.bump("controls_diverged_(C04_matter)")
        return keys | controls[k2], f2, code

    used = 0
    hot = {e["path"] for e in st["edits"] if e["op"] in ("rm_output", "edit_output")}
    points = pick_points(rng, events, budget, hot)
    for pi in points:
        ev = events[pi]
        torn = ev["sys"] in ("write", "writev", "pwrite64") and path_class(ev["path"]) in ("out_sv", "out_map", "filelist", "info", "lockfile") and rng.chance(1, 3)
        variant = variant_for(rng)
        ctrl_keys, f2c, clean_code = control_all(variant)
        restore(C.snap, C.inc)
        if ev["stable"]:
            rc2, out2, err2 = strace_run(C.inc, C.home, argv, C.trace, inject=(ev["sys"], ev["pk"]), only_path=os.path.join(C.inc, ev["path"]))
        else:
            rc2, out2, err2 = strace_run(C.inc, C.home, argv, C.trace, inject=(ev["sys"], ev["k"]))
        ev2, killed2, written2 = parse_trace(C.trace, C.inc)
        used += 1
        C.bump("crash_points_tried")
        if not killed2 and rc2 != -9:
            C.bump("crash_points_not_killed")
            C.fault_log.append(f"not killed: planned {ev} of {argv}; rc={rc2}; events in this run={len(ev2)} vs traced {len(events)}; "
                               f"last={ev2[-1] if ev2 else None}")
            continue
        C.bump("crash_points_killed")
        at = ev2[-1] if ev2 else None
        where = f"{ev['sys']}:{path_class(ev['path'])}"
        C.seen("crash_points_killed_classes", where)
        if at is None or at["sys"] != ev["sys"] or path_class(at["path"]) != path_class(ev["path"]):
            C.bump("crash_points_killed_elsewhere_than_planned")
        if ev.get("first"):
            C.bump("crash_points_killed_first_write")
            C.seen("crash_points_killed_first_write_classes", f"{ev['sys']}:{path_class(ev['dest'])}")
        if C.sabotage == "nonatomic_first_write" and ev.get("first") and ev["dest"] != ev["path"] and \
                path_class(ev["dest"]) in ("out_sv", "out_map"):
            # harness-side emulation of a first write that is not atomic: what the killed process had put into its temp file
            # (nothing, when the kill landed before the data) appears under the final name
            tmpf = os.path.join(C.inc, at["path"]) if at else None
            if tmpf and os.path.basename(tmpf).startswith(".tmp") and os.path.dirname(at["path"]) == os.path.dirname(ev["dest"]) \
                    and os.path.isfile(tmpf):
                os.makedirs(os.path.dirname(os.path.join(C.inc, ev["dest"])), exist_ok=True)
                os.replace(tmpf, os.path.join(C.inc, ev["dest"]))
                C.bump("sabotage_applied")
        torn_desc = None
        if torn:
            want_full = os.path.join(post_snap, ev["path"])
            have = os.path.join(C.inc, ev["path"])
            if os.path.isfile(want_full) and os.path.isfile(have):
                data = open(want_full, "rb").read()
                if len(data) >= 2:
                    cut = 1 + rng.below(len(data) - 1)
                    with open(have, "wb") as f:
                        f.write(data[:cut])
                    torn_desc = f"torn write: {ev['path']} holds {cut}/{len(data)} bytes"
                    C.bump("torn_writes")
        # the faulted state
        f2 = apply_variant(C, variant, files, pre_edit_state, st["edits"], extra_edits)
        r, c, mm = C.judge(f2, recovery, fault_run=True)
        C.bump("recovery_builds")
        C.bump(f"variant_{variant}")
        fault = {"type": "crash", "step_cmd": argv, "syscall": ev["sys"], "when": ev["pk"] if ev["stable"] else ev["k"], "only_path": ev["stable"], "path": ev["path"], "dest": ev["dest"], "first_write": bool(ev.get("first")), "torn": torn_desc,
                 "variant": variant, "recovery_exit": r.code, "restored": r.restored}
        if len(sample["faults"]) < 10:
            sample["faults"].append(fault)
        phase = {"out_sv": "emit", "out_map": "emit", "filelist": "emit", "fragment": "blob", "fragment_tmp": "blob", "manifest": "manifest",
                 "manifest_tmp": "manifest", "info": "info", "cache_other": "lock", "dot_build_other": "lock"}.get(path_class(ev["dest"]), "other")
        verdict(C, r, c, mm, ctrl_keys, fault, f"crash@{phase}{':torn' if torn_desc else ''}:then_{variant}", files0, history, variant, extra_edits,
                recovery)
    restore(C.snap, C.inc)
    shutil.rmtree(post_snap, ignore_errors=True)
    return used


def fault_signature(m, fault, scenario):
    """Stable signature = failure kind + output class + fault scenario class.
      crash, the differing file is the one whose write was killed/torn  -> <kind>:<cls>:crash:killed_output_accepted
      crash, sources reverted (with mtimes) before the recovery build    -> <kind>:<cls>:crash:then_revert
      other crash scenarios                                              -> <kind>:<cls>:crash@<phase>[:torn]:then_<variant>
      damage                                                             -> <kind>:<cls>:damage:<file role>:<damage kind>
      panic                                                              -> panic:<scenario>"""
    if m["kind"] == "panic":
        if fault["type"] == "damage":
            return f"panic:damage:{fault['role']}:{fault['kind']}"
        return f"panic:{scenario}"
    cls = m["cls"]
    if fault["type"] == "crash" and m["kind"] == "output_missing" and cls == "map":
        return "output_missing:map:crash:map_not_regenerated"
    if fault["type"] == "crash":
        rel = m.get("rel") or ""
        if rel and rel in (fault.get("path"), fault.get("dest")):
            return f"{m['kind']}:{cls}:crash:killed_output_accepted"
        if fault.get("variant") == "revert":
            return f"{m['kind']}:{cls}:crash:then_revert"
        return f"{m['kind']}:{cls}:{scenario}"
    return f"{m['kind']}:{cls}:damage:{fault['role']}:{fault['kind']}"


def verdict(C, r, c, mm, ctrl_keys, fault, scenario, files0, history, variant, extra_edits, recovery):
    if c.code != 0:
        C.bump("faults_skipped_clean_build_fails")
        if len(C.fault_log) < 6:
            C.fault_log.append(f"clean build fails ({scenario}): {[d['code'] or d['message'][:60] for d in c.diags][:3]}")
        return
    if r.timeout:
        C.inconclusive.append(f"recovery command timed out after {scenario}")
        return
    C.bump("recovery_compared")
    if r.panic:
        C.bump("recovery_panicked")
    elif r.code != 0:
        C.bump("recovery_failed_with_ordinary_diagnostic")
        C.seen("recovery_failure_scenarios", scenario)
    else:
        C.bump("recovery_succeeded")
        C.bump("recovery_outputs_compared", len(c.outputs))
        if r.restored and r.restored[0] > 0:
            C.bump("recovery_builds_that_restored_fragments")
    bad = [m for m in output_mismatches(mm) if m["kind"] == "panic" or r.code == 0]
    fresh = [m for m in bad if mm_key(m) not in ctrl_keys]
    if bad and not fresh:
        C.bump("faults_masked_by_control_divergence")
    if not fresh:
        return
    by = {}
    for m in fresh:
        by.setdefault(fault_signature(m, fault, scenario), []).append(m)
    for sig, ms in by.items():
        what = (f"after {fault['type']} fault ({scenario}; {json.dumps({k: v for k, v in fault.items() if k not in ('type',)})[:300]}) the recovery "
                f"`veryl {' '.join(recovery)}` exit={r.code} restored={r.restored}: {ms[0]['kind']} -- {ms[0]['detail'][:300]}")
        report(C, sig, what, {"files0": files0, "history": copy.deepcopy(history), "fault": fault, "variant": variant, "extra_edits": extra_edits,
                              "recovery": recovery, "mismatches": ms[:5], "inc": r.brief(), "cln": c.brief()})


def damage_faults(C, rng, H, files, files0, history, budget, sample, opts):
    snapshot(C.inc, C.snap)
    rels = list_dot_build(C.inc)
    roles = manifest_roles(C.inc)
    if not rels:
        return
    plan = []
    for rel in rels:
        size = os.path.getsize(os.path.join(C.inc, rel))
        for k in damage_kinds_for(rel, size, roles):
            plan.append((rel, k))
    C.bump("damage_cases_possible", len(plan))
    # balance: manifest/info/blob classes first, then random
    rng.shuffle(plan)
    by_cls = {}
    for rel, k in plan:
        by_cls.setdefault(path_class(rel) if path_class(rel) != "fragment" else roles.get(rel, "fragment_unreferenced"), []).append((rel, k))
    order = []
    while len(order) < budget and any(by_cls.values()):
        for cls in sorted(by_cls):
            if by_cls[cls] and len(order) < budget:
                order.append(by_cls[cls].pop())
    extra_edits = make_extra_edits(H, rng)
    controls = {}
    recov_choices = [["build"]] * 7 + [["test", "--format", "json", "--backend", "interpret", "--seed", "1"]] * 2 + [["check"]]

    def control(variant, recovery):
        key = (variant, tuple(recovery))
        if key not in controls:
            restore(C.snap, C.inc)
            f2 = apply_variant(C, variant, files, {}, [], extra_edits)
            r, c, mm = C.judge(f2, recovery)
            controls[key] = {mm_key(m) for m in mm}
            C.bump("control_runs")
            if mm:
                C.bump("controls_diverged_(C04_matter)")
        return controls[key]

    for rel, kind in order:
        variant = "edit" if (extra_edits and rng.chance(2, 5)) else "none"
        recovery = rng.pick(recov_choices)
        ctrl_keys = control(variant, recovery)
        restore(C.snap, C.inc)
        rng_s = rng.s
        desc = apply_damage(C.inc, rel, kind, rng, roles)
        if desc is None:
            C.bump("damage_not_applicable")
            continue
        role = roles.get(rel, path_class(rel))
        C.bump("damage_cases")
        C.bump(f"damage_kind_{kind}")
        C.seen("damaged_file_classes", f"{role}")
        f2 = apply_variant(C, variant, files, {}, [], extra_edits)
        r, c, mm = C.judge(f2, recovery, fault_run=True)
        C.bump("recovery_builds")
        C.bump(f"variant_{variant}")
        fault = {"type": "damage", "file": rel, "role": role, "kind": kind, "desc": desc, "rng_s": rng_s, "variant": variant, "recovery_exit": r.code,
                 "restored": r.restored}
        if len(sample["faults"]) < 10:
            sample["faults"].append(fault)
        verdict(C, r, c, mm, ctrl_keys, fault, f"damage:{role}:{kind}:then_{variant}:{recovery[0]}", files0, history, variant, extra_edits, recovery)
        # the command after the recovery must be healthy as well (damage must not linger)
        if r.code == 0 and rng.chance(1, 3):
            r2, c2, mm2 = C.judge(f2, ["build"])
            C.bump("followup_builds")
            verdict(C, r2, c2, mm2, ctrl_keys, dict(fault, followup=True), f"damage:{role}:{kind}:then_{variant}:{recovery[0]}+build", files0,
                    history, variant, extra_edits, ["build"])
    restore(C.snap, C.inc)


# ------------------------------------------------------------------------------------------------
# replay
# ------------------------------------------------------------------------------------------------

def replay_case(rp, scratch, template_home):
    """Re-executes one recorded fault: history, then the fault, the variant edits and the recovery command."""
    C = Case(os.path.join(scratch, "replay"), template_home)
    files = dict(rp["files0"])
    twin.wipe_and_materialize(C.inc, files)
    hist = rp["history"]
    fault = rp["fault"]
    last = len(hist) - 1
    pre_edit_state = {}
    for i, st in enumerate(hist):
        if i == last and fault["type"] == "crash":
            pre_edit_state = source_state(C.inc, set(files) | {e.get("path") for e in st["edits"] if e.get("path")} |
                                          {e.get("to") for e in st["edits"] if e.get("to")})
        for e in st["edits"]:
            apply_edit(C.inc, e)
            apply_edit_to_map(files, e)
        if i == last and fault["type"] == "crash":
            break
        twin.veryl(st["cmd"], cwd=C.inc, home=C.home)
    notes = []
    if fault["type"] == "crash":
        snapshot(C.inc, C.snap)
        strace_run(C.inc, C.home, hist[last]["cmd"], C.trace)
        post = C.snap + "_post"
        snapshot(C.inc, post)
        restore(C.snap, C.inc)
        rc, _, _ = strace_run(C.inc, C.home, hist[last]["cmd"], C.trace, inject=(fault["syscall"], fault["when"]),
                              only_path=os.path.join(C.inc, fault["path"]) if fault.get("only_path") else None)
        ev, killed, _ = parse_trace(C.trace, C.inc)
        notes.append(f"killed={killed} rc={rc} last_event={ev[-1] if ev else None}")
        if fault.get("torn"):
            m = re.match(r"torn write: (\S+) holds (\d+)/", fault["torn"])
            if m:
                data = open(os.path.join(post, m.group(1)), "rb").read()
                with open(os.path.join(C.inc, m.group(1)), "wb") as f:
                    f.write(data[:int(m.group(2))])
    else:
        rng = Rng(0)
        rng.s = fault.get("rng_s", rng.s)
        roles = manifest_roles(C.inc)
        owners = manifest_owners(C.inc)
        m2 = re.match(r"^\[(.*?)\] replaced by the valid blob \[(.*?)\]$", fault.get("desc") or "")
        if m2:       # blob names differ from run to run (fragment bytes are not reproducible): address blobs by their owner
            byowner = {v: k for k, v in owners.items()}
            if m2.group(1) in byowner:
                fault = dict(fault, file=byowner[m2.group(1)])
            rng.want_other = m2.group(2)
        notes.append("damage re-applied: " + str(apply_damage(C.inc, fault["file"], fault["kind"], rng, roles)))
    f2 = apply_variant(C, rp.get("variant", "none"), files, pre_edit_state, [], rp.get("extra_edits", []))
    r, c, mm = C.judge(f2, rp.get("recovery", ["build"]))
    return C, r, c, mm, notes


# ------------------------------------------------------------------------------------------------

def main():
    args = Args()
    args.prop = args.prop or PROP
    run = Run(args, "fault_enumeration",
              "case = one fault (crash point K of a traced build/test step, optionally with a torn write; or one damage operation on "
              "one file under .build) applied to a generated project history, followed by a recovery command judged by a clean "
              "twin; distinct by (fault class, target file class, follow-up variant, history); non-trivial when the faulted "
              "process was really killed / the file really changed and the recovery build was compared")
    run.assume("strace inject kills the process immediately before the selected syscall takes effect (verified per point: the run must end "
               "with SIGKILL); crash points are the main thread's file syscalls below the project directory")
    run.assume("torn writes model a fatal signal arriving inside a write(2): the file keeps a prefix of the intended content")
    run.assume("a difference that the fault-free control run shows too is an incremental-build divergence (C04) and is not attributed to "
               "the fault; a recovery build that fails with an ordinary diagnostic is counted, not flagged")
    run.assume("clean twin = wiped directory with the same sources, same binary, same HOME")
    if shutil.which("strace") is None:
        run.inconclusive("strace is not installed")
        run.finish([])
    scratch = run.scratch()
    template_home, tcode = twin.make_template_home(scratch)
    if tcode != 0:
        run.inconclusive(f"template build (std expansion) failed with exit {tcode}")
        run.finish([])

    if args.replay:
        rp = json.load(open(args.replay))["case"]
        C, r, c, mm, notes = replay_case(rp, scratch, template_home)
        run.eval()
        run.extra["replay"] = {"notes": notes, "inc": r.brief(), "cln_exit": c.code, "mismatches": [m["kind"] + ":" + m["detail"][:200] for m in mm]}
        bad = [m for m in output_mismatches(mm) if m["kind"] == "panic" or r.code == 0]
        run.count("recovery_compared")
        if bad and c.code == 0:
            run.violation(json.load(open(args.replay))["signature"], f"replay: {bad[0]['kind']} -- {bad[0]['detail'][:300]}", rp)
        run.finish([("recovery_compared", 1)])

    nhist = args.budget("histories", 6, 30)
    opts = {
        "steps": args.budget("steps", 4, 8),
        "crash": args.budget("crash", 6, 40),
        "crash_steps": args.budget("crash_steps", 1, 2),
        "crash_per_step": args.budget("crash_per_step", 6, 24),
        "damage": args.budget("damage", 3, 7),
        "sabotage": (args.extra.get("sabotage") if args.extra.get("sabotage") == "nonatomic_first_write"
                     else bool(int(args.extra.get("sabotage", 0)))),
    }
    jobs = int(args.extra.get("jobs", min(12, os.cpu_count() or 4)))
    if opts["sabotage"] == "nonatomic_first_write":
        run.note("SELF-TEST: --set sabotage=nonatomic_first_write moves the killed process's temp file to the final name when the output "
                 "did not exist before (harness-side emulation of a non-atomic first write); a violation is expected")
    elif opts["sabotage"]:
        run.note("SELF-TEST: --set sabotage=1 truncates one recovered output before comparison; a violation is expected")
    work = [(args.seed, i, scratch, template_home, opts) for i in range(nhist)]
    with multiprocessing.Pool(jobs) as pool:
        for res in pool.imap_unordered(run_history, work):
            if res.get("error"):
                run.inconclusive(f"history {res['case']}: harness error: {res['error'].splitlines()[-1]}")
                run.note(res["error"][-1500:])
                continue
            c = res["counters"]
            for k, v in c.items():
                run.count(k, v)
            for k, vs in res["sets"].items():
                for v in vs:
                    run.seen(k, v)
            nf = c.get("crash_points_killed", 0) + c.get("damage_cases", 0)
            run.eval(nf)
            for j in range(nf):
                run.nontrivial(f"{res['case']}:{j}:{res.get('shape')}")
            run.count("histories")
            if res.get("sample"):
                run.sample(res["sample"], cap=3)
            for r in res["inconclusive"]:
                run.inconclusive(f"history {res['case']}: {r}")
            for l in res.get("fault_log", []):
                run.note(f"history {res['case']}: {l}")
            for v in res["violations"]:
                v["replay"]["history_index"] = res["case"]
                run.violation(v["signature"], v["what"], v["replay"])
    run.extra["histories_planned"] = nhist
    run.extra["budget"] = opts
    custom = any(k in args.extra for k in ("histories", "crash", "damage", "steps", "crash_per_step", "crash_steps"))
    if custom:
        floors = [("recovery_compared", 1)]
    elif args.thorough():
        floors = [("crash_points_killed", 300), ("damage_cases", 60), ("recovery_compared", 350), ("recovery_succeeded", 250),
                  ("recovery_outputs_compared", 3000), ("crash_points_killed_classes", 6), ("damaged_file_classes", 4),
                  ("crash_points_killed_first_write", 150), ("crash_points_killed_first_write_classes", 4)]
    else:
        floors = [("crash_points_killed", 12), ("damage_cases", 6), ("recovery_compared", 12), ("recovery_succeeded", 10),
                  ("recovery_outputs_compared", 200), ("crash_points_killed_classes", 2), ("damaged_file_classes", 2),
                  ("crash_points_killed_first_write", 6), ("crash_points_killed_first_write_classes", 2)]
    run.finish(floors)


if __name__ == "__main__":
    main()
