"""Small multi-file Veryl project generator for the C24 / C25 / C27 monitors.

The generator first builds an *acyclic reference graph* (items are created in a global order and may only
reference items created earlier that are visible to them; files are created in that order too, so the
file-level graph is acyclic by construction), then renders text.  It therefore knows, without parsing
anything the system under test parses, which file references packages / interfaces / modules of which
other file.

What it produces
  * a "universe": one root project plus 0..4 local path-dependency projects (`[dependencies] x = {path = ...}`),
    optionally two transitive dependencies that carry the *same project name* (`util`), optionally `$std` use;
  * packages (consts, typedef, struct, enum, function, optional `for <proto package>`), interfaces with
    modports, modules instantiating modules / interfaces from other files, `import pkg::*` (file level and
    item level) and qualified references, generic modules (const generic and proto-package generic)
    instantiated with different arguments from different files, equal member names in every package
    (`W`, `word`, `inc`, `Kind`, `pair`) and equal item names across projects, `#[test]` modules, `examples/`;
  * files in sub-directories and several `sources` directories, with equal base names in different
    directories (and, when asked for, equal relative paths in two `sources` directories).

Every source file starts with a marker comment `// @@SRC:<uid>@@` which the emitter copies into its output,
so a monitor can tell which source an output (or a chunk of a bundle) came from.
"""
import json
import os
import re

MARK = "@@SRC:%s@@"


class Item:
    def __init__(self, uid, kind, name, proj, pub):
        self.uid = uid
        self.kind = kind          # pkg | proto | iface | mod | modp | gconst | gpkg | test | example
        self.name = name
        self.proj = proj
        self.pub = pub
        self.file = None
        self.refs = []            # [(Item, how)]  hard references (package / interface / module)
        self.soft = []            # [(Item, how)]  references to proto packages (emit nothing)
        self.attr = {}
        self.body = []            # rendered lines (without the header)


class SrcFile:
    def __init__(self, uid, proj, srcdir, rel):
        self.uid = uid
        self.proj = proj
        self.srcdir = srcdir      # "" for dependency projects' "src"
        self.rel = rel            # path below srcdir, with .veryl
        self.items = []
        self.file_imports = []    # [(Item pkg)]
        self.index = 0
        self.example = False
        self.text = ""

    def path(self):               # relative to the project directory
        return os.path.normpath(os.path.join(self.srcdir, self.rel))


class Project:
    def __init__(self, dirname, name):
        self.dirname = dirname    # directory name inside the universe
        self.name = name          # [project] name
        self.deps = {}            # alias -> Project
        self.files = []
        self.items = []
        self.opts = {}
        self.sources = ["src"]
        self.is_root = False

    def toml(self):
        o = self.opts
        lines = ["[project]", f'name = "{self.name}"', 'version = "0.1.0"', "", "[build]"]
        lines.append("sources = [" + ", ".join(f'"{s}"' for s in self.sources) + "]")
        t = o.get("target", "directory")
        if t == "source":
            lines.append('target = {type = "source"}')
        elif t == "directory":
            lines.append(f'target = {{type = "directory", path = "{o.get("target_path", "target")}"}}')
        else:
            lines.append(f'target = {{type = "bundle", path = "{o.get("target_path", "all.sv")}"}}')
        sm = o.get("sourcemap", "target")
        if sm == "directory":
            lines.append(f'sourcemap_target = {{type = "directory", path = "{o.get("sourcemap_path", "maps")}"}}')
        else:
            lines.append(f'sourcemap_target = {{type = "{sm}"}}')
        lines.append(f'filelist_type = "{o.get("filelist", "absolute")}"')
        lines.append(f'exclude_std = {"false" if o.get("std") else "true"}')
        if o.get("incremental"):
            lines.append("incremental = true")
        for k, v in o.get("extra", {}).items():
            lines.append(f"{k} = {v}")
        if self.deps:
            lines.append("")
            lines.append("[dependencies]")
            for alias in sorted(self.deps):
                lines.append(f'{alias} = {{path = "../{self.deps[alias].dirname}"}}')
        return "\n".join(lines) + "\n"


class Universe:
    def __init__(self):
        self.projects = []        # dependency projects first, root last
        self.root = None
        self.items = []
        self.files = []
        self.features = set()
        self.induced = []         # [(generic module item, package item used as generic argument)]

    # -- ground truth -----------------------------------------------------------------------
    def file_graph(self, soft=False):
        """{file uid: set(file uid)}: the file references a package/interface/module of the other file."""
        g = {f.uid: set() for f in self.files}
        for it in self.items:
            for tgt, _how in (it.refs + (it.soft if soft else [])):
                if tgt.file is not it.file:
                    g[it.file.uid].add(tgt.file.uid)
        for f in self.files:
            for p in f.file_imports:
                if p.file is not f:
                    g[f.uid].add(p.file.uid)
        for a, b in self.induced:
            if a.file is not b.file:
                g[a.file.uid].add(b.file.uid)
        return g

    def item_graph(self):
        """{item uid: set(item uid)} - the same references at item (symbol) granularity."""
        g = {it.uid: set() for it in self.items}
        for it in self.items:
            for tgt, _how in it.refs:
                g[it.uid].add(tgt.uid)
            for p in it.file.file_imports:
                g[it.uid].add(p.uid)
        for a, b in self.induced:
            g[a.uid].add(b.uid)
        return g

    def reachable_from_root(self):
        g = self.file_graph()
        todo = [f.uid for f in self.root.files]
        seen = set(todo)
        while todo:
            u = todo.pop()
            for v in g[u]:
                if v not in seen:
                    seen.add(v)
                    todo.append(v)
        return seen

    def file_by_uid(self, uid):
        for f in self.files:
            if f.uid == uid:
                return f
        return None

    # -- writing ----------------------------------------------------------------------------
    def tree(self):
        """{path relative to the universe dir: text}"""
        out = {}
        for p in self.projects:
            out[os.path.join(p.dirname, "Veryl.toml")] = p.toml()
            for f in p.files:
                out[os.path.join(p.dirname, f.path())] = f.text
        return out

    def write(self, dirpath):
        write_tree(dirpath, self.tree())

    def root_dir(self, dirpath):
        return os.path.join(dirpath, self.root.dirname)

    def describe(self):
        return {
            "root": self.root.dirname,
            "features": sorted(self.features),
            "projects": [{"dir": p.dirname, "name": p.name, "deps": {a: d.dirname for a, d in p.deps.items()},
                          "sources": p.sources, "opts": p.opts,
                          "files": [{"uid": f.uid, "path": f.path(), "example": f.example,
                                     "items": [f"{i.kind}:{i.name}" for i in f.items]} for f in p.files]}
                         for p in self.projects],
            "file_graph": {k: sorted(v) for k, v in self.file_graph().items()},
        }


def write_tree(dirpath, tree):
    for rel, text in tree.items():
        p = os.path.join(dirpath, rel)
        os.makedirs(os.path.dirname(p), exist_ok=True)
        with open(p, "w") as fh:
            fh.write(text)


# ---------------------------------------------------------------------------------------------
# generation
# ---------------------------------------------------------------------------------------------

BASENAMES = ["x", "core", "pkg", "top", "util", "ifc", "leaf", "gen"]
SUBDIRS = ["", "", "a", "b", "a/deep", "c"]


class Gen:
    def __init__(self, rng, opts=None):
        self.rng = rng
        self.o = dict(opts or {})
        self.u = Universe()
        self.nitem = 0
        self.nfile = 0
        self.cur_file = None

    # .. helpers ..........................................................................
    def feature(self, name):
        self.u.features.add(name)

    def new_item(self, kind, name, proj):
        self.nitem += 1
        pub = (not proj.is_root) or self.rng.chance(1, 3)
        it = Item(f"I{self.nitem}", kind, name, proj, pub)
        it.file = self.cur_file
        return it

    def generic_arg_ok(self, generic, pkg):
        """`Gen::<Pkg..>` makes the *generic's* output file reference the package (the instance is emitted
        there), so the package must live in a file created no later than the generic's file."""
        return pkg.file.index <= generic.file.index

    def qual(self, frm_proj, tgt):
        """How an item of frm_proj names tgt."""
        if tgt.proj is frm_proj:
            return tgt.name
        if tgt.proj.name == "$std":
            return "$std::" + tgt.name
        for alias, d in frm_proj.deps.items():
            if d is tgt.proj:
                return f"{alias}::{tgt.name}"
        raise AssertionError("not visible")

    def visible(self, proj, kinds):
        out = []
        for it in self.u.items:
            if it.kind not in kinds:
                continue
            if it.proj is proj or (it.proj in proj.deps.values() and it.pub):
                out.append(it)
        return out

    # .. items ............................................................................
    def make_proto(self, proj, idx):
        it = self.new_item("proto", f"Proto{idx}", proj)
        it.body = [f"{'pub ' if it.pub else ''}proto package {it.name} {{", "    const W: u32;", "}"]
        return it

    def make_pkg(self, proj, idx):
        r = self.rng
        it = self.new_item("pkg", f"Pkg{idx}", proj)
        w = r.range(2, 9)
        it.attr["W"] = w
        protos = self.visible(proj, ("proto",))
        proto = r.pick(protos) if protos and r.chance(2, 3) else None
        it.attr["proto"] = proto
        hdr = f"{'pub ' if it.pub else ''}package {it.name}"
        if proto is not None:
            hdr += f" for {self.qual(proj, proto)}"
            it.soft.append((proto, "for-proto"))
            self.feature("pkg-for-proto")
        lines = [hdr + " {"]
        base = None
        pk = [p for p in self.visible(proj, ("pkg",))]
        if pk and r.chance(1, 3):
            base = r.pick(pk)
            it.refs.append((base, "pkg-const"))
            self.feature("pkg-refs-pkg")
            lines.append(f"    const BASE: u32 = {self.qual(proj, base)}::W;")
        lines.append(f"    const W: u32 = {w};")
        lines.append(f"    const K{idx}: u32 = {r.range(1, 30)};")
        lines.append("    type word = logic<W>;")
        lines.append("    struct pair {")
        lines.append("        x: word    ,")
        lines.append("        y: logic<3>,")
        lines.append("    }")
        lines.append("    enum Kind: logic<2> {")
        lines.append("        k0,")
        lines.append("        k1,")
        lines.append("        k2,")
        lines.append("    }")
        if base is not None and self.o.get("hash_shapes"):
            bq = self.qual(proj, base)
            lines += ["    enum Code: logic<8> {", f"        c0 = {bq}::W,", f"        c1 = {bq}::W + 1,",
                      f"        c2 = {bq}::K{base.name[3:]} + 40,", "    }"]
            self.feature("enum-values-from-other-package")
        lines.append("    function inc (")
        lines.append("        a: input logic<W>,")
        lines.append("    ) -> logic<W> {")
        lines.append(f"        return a + {r.range(1, 3)};")
        lines.append("    }")
        lines.append("}")
        it.body = lines
        return it

    def pkg_ref(self, it, proj, fileimports, lines_pre):
        """Pick a visible package and a way to reach its members. Returns (pkg, prefix) where prefix is
        'Pkg::' or '' (glob import in effect)."""
        r = self.rng
        pk = self.visible(proj, ("pkg",))
        if not pk:
            return None, None
        p = r.pick(pk)
        q = self.qual(proj, p)
        mode = r.below(4)
        if mode == 0 and it.attr.get("glob") is None and not fileimports:
            # item-level glob import (only one glob per scope, because member names are equal everywhere)
            it.attr["glob"] = p
            lines_pre.append(f"    import {q}::*;")
            it.refs.append((p, "import-glob"))
            self.feature("import-glob-item")
            return p, ""
        if it.attr.get("glob") is p:
            return p, ""
        if fileimports and fileimports[0] is p and it.attr.get("glob") is None:
            self.feature("import-glob-file-used")
            return p, ""
        it.refs.append((p, "qualified"))
        return p, q + "::"

    def make_iface(self, proj, idx, fileimports):
        r = self.rng
        it = self.new_item("iface", f"If{idx}", proj)
        pre = []
        p, pref = (None, None)
        if r.chance(2, 3):
            p, pref = self.pkg_ref(it, proj, fileimports, pre)
        width = f"{pref}W" if p is not None else str(r.range(2, 9))
        it.attr["W"] = p.attr["W"] if p is not None else int(width)
        lines = [f"{'pub ' if it.pub else ''}interface {it.name} {{"] + pre
        lines += [f"    var d: logic<{width}>;", "    var v: logic;",
                  "    modport mst {", "        d: output,", "        v: output,", "    }",
                  "    modport slv {", "        d: input,", "        v: input,", "    }"]
        it.attr["mps"] = ["slv"]
        if self.o.get("hash_shapes"):
            # modports whose member list is completed from a default direction / another modport
            lines += ["    modport ain {", "        ..input", "    }",
                      "    modport aout {", "        ..output", "    }",
                      "    modport rel {", "        ..same(mst)", "    }",
                      "    modport cnv {", "        ..converse(mst)", "    }",
                      "    modport part {", "        d: output,", "        ..input", "    }"]
            it.attr["mps"] = ["slv", "ain", "cnv"]
            self.feature("modport-default-direction")
        lines.append("}")
        it.body = lines
        return it

    def make_mixiface(self, proj, idx):
        """An interface that mixes in an interface of (usually) another file and re-exports its modports."""
        r = self.rng
        srcs = [x for x in self.visible(proj, ("iface",)) if x.proj is proj]
        if not srcs:
            return None
        src = r.pick(srcs)
        it = self.new_item("mixiface", f"Mx{idx}", proj)
        it.refs.append((src, "mixin"))
        it.attr["W"] = src.attr["W"]
        it.attr["extra"] = ["c"]
        it.attr["mps"] = ["mi", "mc"]
        it.body = [f"{'pub ' if it.pub else ''}interface {it.name} {{", f"    mixin {self.qual(proj, src)};",
                   "    var c: logic<3>;",
                   "    modport mm {", "        c: output,", "        ..same(mst)", "    }",
                   "    modport mc {", "        c: input,", "        ..converse(mst)", "    }",
                   "    modport mi {", "        ..input", "    }",
                   "    modport mo {", "        ..output", "    }",
                   # re-export source modports that are themselves completed from a default direction
                   "    modport ms {", "        c: output,", "        ..same(ain)", "    }",
                   "    modport mv {", "        c: input,", "        ..converse(aout)", "    }",
                   "    modport mr {", "        ..same(rel, part)", "    }", "}"]
        it.attr["mps"] = ["mi", "mc", "mv"]
        self.feature("mixin-interface")
        if src.file is not self.cur_file:
            self.feature("mixin-interface-across-files")
        return it

    def make_giface(self, proj, idx):
        it = self.new_item("giface", f"GIf{idx}", proj)
        it.attr["mps"] = ["slv"]
        it.attr["generic"] = True
        it.body = [f"{'pub ' if it.pub else ''}interface {it.name}::<N: u32> {{", "    var d: logic<N>;", "    var v: logic;",
                   "    modport mst {", "        d: output,", "        v: output,", "    }",
                   "    modport slv {", "        ..input", "    }", "}"]
        self.feature("generic-interface")
        return it

    def make_gpackage(self, proj, idx):
        it = self.new_item("gpackage", f"GP{idx}", proj)
        it.body = [f"{'pub ' if it.pub else ''}package {it.name}::<N: u32> {{", "    const W: u32 = N;",
                   "    type word = logic<N>;", "}"]
        self.feature("generic-package")
        return it

    def make_gconst(self, proj, idx):
        it = self.new_item("gconst", f"Gen{idx}", proj)
        it.body = [f"{'pub ' if it.pub else ''}module {it.name}::<N: u32> (", "    o: output logic<N>,", ") {",
                   "    assign o = 0;", "}"]
        self.feature("generic-const-module")
        return it

    def make_gpkg(self, proj, idx):
        protos = self.visible(proj, ("proto",))
        if not protos:
            return None
        pr = self.rng.pick(protos)
        it = self.new_item("gpkg", f"Gen{idx}", proj)
        it.attr["proto"] = pr
        it.soft.append((pr, "generic-bound"))
        it.body = [f"{'pub ' if it.pub else ''}module {it.name}::<P: {self.qual(proj, pr)}> (",
                   "    o: output logic<P::W>,", ") {", "    assign o = 0;", "}"]
        self.feature("generic-proto-module")
        return it

    def make_mod(self, proj, idx, fileimports, kind="mod", name=None, force_modp=None):
        """A module: optional modport port, package members, sub-instances."""
        r = self.rng
        it = self.new_item(kind, name or f"Mod{idx}", proj)
        pre = []
        body = []
        n = 0
        terms = []
        modp = None
        if kind == "mod" and (force_modp is not None or r.chance(1, 3)):
            ifs = self.visible(proj, ("iface", "mixiface", "giface"))
            if ifs:
                modp = force_modp if force_modp is not None else r.pick(ifs)
                it.refs.append((modp, "modport"))
                it.attr["modport"] = modp
                it.attr["mp_name"] = r.pick(modp.attr.get("mps", ["slv"]))
                it.attr["mp_args"] = f"::<{r.range(2, 4)}>" if modp.attr.get("generic") else ""
                self.feature("modport-port")
                if modp.kind != "iface" or it.attr["mp_name"] != "slv":
                    self.feature("modport-port-" + modp.kind + "-" + it.attr["mp_name"])
        # package members
        for _ in range(r.below(3)):
            p, pref = self.pkg_ref(it, proj, fileimports, pre)
            if p is None:
                break
            what = r.below(5)
            if what == 0:
                body.append(f"    let _t{n}: {pref}Kind = {pref}Kind::k{r.below(3)};")
            elif what == 1:
                body.append(f"    let _t{n}: {pref}pair = {pref}pair'{{x: {r.below(4)}, y: {r.below(8)}}};")
            elif what == 2:
                body.append(f"    var t{n}: {pref}word;")
                body.append(f"    assign t{n} = {pref}inc({r.below(4)});")
                terms.append(f"t{n}")
            elif what == 3:
                body.append(f"    let t{n}: logic<{pref}W> = {r.below(4)};")
                terms.append(f"t{n}")
            else:
                body.append(f"    const C{n}: u32 = {pref}W + {r.below(3)};")
                body.append(f"    let t{n}: logic<C{n}> = 1;")
                terms.append(f"t{n}")
            n += 1
        if self.o.get("hash_shapes"):
            for g in self.visible(proj, ("giface", "gpackage")):
                if not r.chance(2, 3):
                    continue
                arg = r.range(2, 5)
                it.refs.append((g, "generic-inst"))
                if g.kind == "giface":
                    body.append(f"    inst gb{n}: {self.qual(proj, g)}::<{arg}>;")
                    body.append(f"    assign gb{n}.d = {r.below(4)};")
                    body.append(f"    assign gb{n}.v = {r.below(2)};")
                    terms.append(f"gb{n}.d")
                    self.feature("generic-interface-instance")
                else:
                    body.append(f"    let t{n}: {self.qual(proj, g)}::<{arg}>::word = {r.below(4)};")
                    terms.append(f"t{n}")
                    self.feature("generic-package-instance")
                n += 1
        # instances
        cands = self.visible(proj, ("mod", "gconst", "gpkg"))
        if kind in ("test", "example"):
            cands = [c for c in cands if c.kind == "mod"] or cands
        ninst = r.below(4) if kind == "mod" else r.range(1, 2)
        for _ in range(ninst):
            if not cands:
                break
            want = r.pick(["mod", "mod", "gconst", "gpkg"])
            sub = [x for x in cands if x.kind == want]
            c = r.pick(sub or cands)
            q = self.qual(proj, c)
            if c.kind == "mod":
                mp = c.attr.get("modport")
                if mp is not None and not (mp.proj is proj or (mp.proj in proj.deps.values() and mp.pub)):
                    continue
                it.refs.append((c, "inst"))
                wi, wo = c.attr["wi"], c.attr["wo"]
                body.append(f"    var w{n}: logic<{wo}>;")
                conns = []
                if mp is not None:
                    # the sub-module has a modport port: instantiate the interface here
                    it.refs.append((mp, "inst-iface"))
                    body.append(f"    inst b{n}: {self.qual(proj, mp)}{c.attr.get('mp_args', '')};")
                    body.append(f"    assign b{n}.d = {r.below(4)};")
                    body.append(f"    assign b{n}.v = 1;")
                    for extra in mp.attr.get("extra", []):
                        body.append(f"    assign b{n}.{extra} = {r.below(4)};")
                    conns.append(f"p: b{n}")
                    self.feature("interface-instance")
                conns.append(f"i: {r.below(2 ** min(wi, 4))}" if not terms or r.bool() else f"i: {r.pick(terms)}")
                conns.append(f"o: w{n}")
                body.append(f"    inst u{n}: {q} (")
                for cc in conns:
                    body.append(f"        {cc},")
                body.append("    );")
                terms.append(f"w{n}")
            elif c.kind == "gconst":
                it.refs.append((c, "inst-generic"))
                p, pref = (None, None)
                if r.bool():
                    pk = [x for x in self.visible(proj, ("pkg",)) if self.generic_arg_ok(c, x)]
                    if pk:
                        p = r.pick(pk)
                        pref = self.qual(proj, p) + "::"
                        it.refs.append((p, "generic-arg"))
                        self.u.induced.append((c, p))
                if p is not None and pref:
                    arg, wo = f"{pref}W", p.attr["W"]
                    self.feature("generic-arg-pkg-const")
                else:
                    wo = r.range(2, 5)
                    arg = str(wo)
                body.append(f"    var w{n}: logic<{wo}>;")
                body.append(f"    inst g{n}: {q}::<{arg}> (")
                body.append(f"        o: w{n},")
                body.append("    );")
                terms.append(f"w{n}")
            else:
                pr = c.attr["proto"]
                pk = [p for p in self.visible(proj, ("pkg",)) if p.attr.get("proto") is pr
                      and self.generic_arg_ok(c, p)]
                if not pk:
                    continue
                p = r.pick(pk)
                it.refs.append((c, "inst-generic"))
                it.refs.append((p, "generic-arg"))
                self.u.induced.append((c, p))
                body.append(f"    var w{n}: logic<{p.attr['W']}>;")
                body.append(f"    inst g{n}: {q}::<{self.qual(proj, p)}> (")
                body.append(f"        o: w{n},")
                body.append("    );")
                terms.append(f"w{n}")
                self.feature("generic-arg-package")
            n += 1
        if proj.opts.get("std") and kind == "mod" and r.chance(1, 2):
            body.append(f"    var w{n}: logic<6>;")
            body.append(f"    inst s{n}: $std::gray_encoder #(")
            body.append("        WIDTH: 6,")
            body.append("    ) (")
            body.append(f"        i_bin : {r.below(32)},")
            body.append(f"        o_gray: w{n},")
            body.append("    );")
            terms.append(f"w{n}")
            it.attr["std"] = True
            self.feature("std-instance")
            n += 1
        if self.o.get("warnings") and r.chance(1, 4):
            body.append(f"    let unused_{idx}: logic = 1;")
            it.attr["warn"] = True
            self.feature("warning-unused-variable")
        wi, wo = r.range(2, 8), r.range(2, 8)
        it.attr["wi"], it.attr["wo"] = wi, wo
        if kind == "mod":
            hdr = [f"{'pub ' if it.pub else ''}module {it.name} ("]
            if modp is not None:
                hdr.append(f"    p: modport {self.qual(proj, modp)}{it.attr.get('mp_args', '')}::{it.attr.get('mp_name', 'slv')},")
                terms.append("(if p.v ? p.d : 0)")
            hdr += [f"    i: input  logic<{wi}>,", f"    o: output logic<{wo}>,", ") {"]
            expr = " ^ ".join(["i"] + terms)
            tail = [f"    assign o = {expr};", "}"]
        elif kind == "test":
            hdr = [f"#[test({it.name})]", f"module {it.name} {{"]
            tail = ["    initial {", "        $finish();", "    }", "}"]
            body = [re.sub(r"\b([wt])(\d+)\b", r"_\1\2", b) for b in body]
            self.feature("test-module")
        else:
            hdr = [f"module {it.name} ("] + [f"    o: output logic<{wo}>,", ") {"]
            tail = [f"    assign o = {' ^ '.join(terms) if terms else '0'};", "}"]
        it.body = hdr + pre + body + tail
        return it

    # .. project ..........................................................................
    def fill_project(self, proj, nfiles, layout):
        r = self.rng
        counters = {"pkg": 0, "iface": 0, "mod": 0, "gen": 0, "proto": 0, "test": 0}
        used_paths = set()
        multi = self.o.get("multi_item", 30)      # percent of files with 2..3 items

        def new_file():
            self.nfile += 1
            if layout == "equal-rel" and len(proj.sources) >= 2 and proj.files and \
                    (len(proj.files) == 1 or r.chance(1, 3)):
                # the same relative path below another sources dir (the second file always does this, so an
                # "equal-rel" project is guaranteed to contain at least one such pair)
                other = r.pick(proj.files)
                for srcdir in proj.sources:
                    key = os.path.normpath(os.path.join(srcdir, other.rel))
                    if key not in used_paths:
                        used_paths.add(key)
                        return SrcFile(f"F{self.nfile}", proj, srcdir, other.rel)
            for _try in range(50):
                srcdir = r.pick(proj.sources)
                sub = r.pick(SUBDIRS) if layout != "flat" else ""
                base = r.pick(BASENAMES) if layout in ("equal-base", "equal-rel") else f"f{self.nfile}"
                rel = os.path.join(sub, base + ".veryl")
                key = os.path.normpath(os.path.join(srcdir, rel))
                if key in used_paths:
                    continue
                if layout == "equal-base" and any(os.path.normpath(os.path.join(s, rel)) in used_paths
                                                  for s in proj.sources):
                    continue      # equal base names, but not equal relative paths in two sources dirs
                used_paths.add(key)
                return SrcFile(f"F{self.nfile}", proj, srcdir, rel)
            rel = f"f{self.nfile}.veryl"
            used_paths.add(os.path.normpath(os.path.join(proj.sources[0], rel)))
            return SrcFile(f"F{self.nfile}", proj, proj.sources[0], rel)

        for fi in range(nfiles):
            f = new_file()
            f.index = self.nfile
            self.cur_file = f
            nitems = r.range(2, 3) if r.below(100) < multi else 1
            # a file-level glob import (at most one, because all packages share member names)
            pk = self.visible(proj, ("pkg",))
            if pk and r.chance(1, 4):
                f.file_imports.append(r.pick(pk))
                self.feature("import-glob-file")
            for _ in range(nitems):
                k = r.below(100)
                it = None
                forced = None
                if self.o.get("hash_shapes") and proj.is_root and not f.items:
                    # every root project gets the shape family at least once, spread over different files
                    forced = {1: "iface", 2: "giface", 3: "mixiface", 4: "modmix"}.get(fi)
                if forced == "iface":
                    it = self.make_iface(proj, counters["iface"], f.file_imports); counters["iface"] += 1
                elif forced == "mixiface":
                    it = self.make_mixiface(proj, counters["iface"])
                    if it is not None:
                        counters["iface"] += 1
                elif forced == "modmix":
                    mx = [x for x in proj.items if x.kind == "mixiface"]
                    it = self.make_mod(proj, counters["mod"], f.file_imports, force_modp=mx[-1] if mx else None)
                    counters["mod"] += 1
                elif forced == "giface":
                    it = self.make_giface(proj, counters["gen"]); counters["gen"] += 1
                elif fi == 0 and not f.items and r.chance(1, 3):
                    it = self.make_proto(proj, counters["proto"]); counters["proto"] += 1
                elif fi == 0 or k < 22:
                    it = self.make_pkg(proj, counters["pkg"]); counters["pkg"] += 1
                elif k < 30:
                    it = self.make_proto(proj, counters["proto"]); counters["proto"] += 1
                elif k < 42:
                    it = self.make_iface(proj, counters["iface"], f.file_imports); counters["iface"] += 1
                elif k < 50:
                    it = self.make_gconst(proj, counters["gen"]); counters["gen"] += 1
                elif k < 57:
                    it = self.make_gpkg(proj, counters["gen"])
                    if it is not None:
                        counters["gen"] += 1
                elif self.o.get("hash_shapes") and k < 66:
                    it = self.make_mixiface(proj, counters["iface"])
                    if it is not None:
                        counters["iface"] += 1
                elif self.o.get("hash_shapes") and k < 72:
                    it = self.make_giface(proj, counters["gen"]); counters["gen"] += 1
                elif self.o.get("hash_shapes") and k < 77:
                    it = self.make_gpackage(proj, counters["gen"]); counters["gen"] += 1
                elif k < 62 and proj.is_root and self.o.get("tests", True):
                    it = self.make_mod(proj, counters["test"], f.file_imports, kind="test",
                                       name=f"test_{proj.name}_{counters['test']}")
                    counters["test"] += 1
                if it is None:
                    it = self.make_mod(proj, counters["mod"], f.file_imports); counters["mod"] += 1
                f.items.append(it)
                proj.items.append(it)
                self.u.items.append(it)
                if forced == "giface":
                    gp = self.make_gpackage(proj, counters["gen"]); counters["gen"] += 1
                    f.items.append(gp)
                    proj.items.append(gp)
                    self.u.items.append(gp)
            if len(f.items) > 1:
                self.feature("multi-item-file")
            proj.files.append(f)
            self.u.files.append(f)
        if proj.is_root and self.o.get("examples") and r.chance(1, 2):
            self.nfile += 1
            f = SrcFile(f"F{self.nfile}", proj, "examples", f"ex{self.nfile}.veryl")
            f.example = True
            f.index = self.nfile
            self.cur_file = f
            it = self.make_mod(proj, 0, [], kind="example", name=f"Example{self.nfile}")
            f.items.append(it)
            proj.items.append(it)
            proj.files.append(f)
            self.u.items.append(it)
            self.u.files.append(f)
            self.feature("examples-dir")

    def render(self):
        for f in self.u.files:
            lines = ["// " + MARK % f.uid]
            for p in f.file_imports:
                lines.append(f"import {self.qual(f.proj, p)}::*;")
            for it in f.items:
                lines.append("")
                lines += it.body
            f.text = "\n".join(lines) + "\n"

    def universe(self):
        r = self.rng
        o = self.o
        u = self.u
        ndeps = o.get("deps")
        if ndeps is None:
            ndeps = r.pick([0, 0, 0, 1, 2, 2])
        shared = o.get("shared_name")
        if shared is None:
            shared = ndeps >= 2 and r.chance(1, 2)
        root = Project("root", o.get("name", f"prj{r.below(90) + 10}"))
        root.is_root = True
        root.opts = dict(o.get("root_opts", {}))
        nsrc = o.get("nsources")
        if nsrc is None:
            nsrc = r.pick([1, 1, 2, 3])
        root.sources = ["src", "lib", "rtl/core"][:nsrc]
        deps = []
        if ndeps:
            names = ["da", "db", "dc"]
            if shared:
                # two transitive dependencies with the same project name, reached through da and db
                u1 = Project("u1", "util")
                u2 = Project("u2", "util")
                for p in (u1, u2):
                    p.opts = {"target": "directory"}
                    self.fill_project(p, r.range(1, 2), "flat")
                    u.projects.append(p)
                self.feature("deps-shared-project-name")
            for i in range(ndeps):
                d = Project(names[i], names[i])
                d.opts = {"target": "directory"}
                if shared and i < 2:
                    d.deps["util"] = (u1, u2)[i]
                elif deps and r.chance(1, 3):
                    d.deps[deps[-1].name] = deps[-1]
                    self.feature("deps-transitive")
                self.fill_project(d, r.range(1, 3), r.pick(["flat", "subdirs"]))
                u.projects.append(d)
                deps.append(d)
                root.deps[d.name] = d
            self.feature("deps-path")
        layout = o.get("layout") or r.pick(["flat", "subdirs", "equal-base", "equal-base"])
        if layout == "equal-rel" and nsrc < 2:
            layout = "equal-base"
        self.feature("layout-" + layout)
        self.feature(f"sources-dirs-{nsrc}")
        self.fill_project(root, o.get("nfiles") or r.range(3, 8), layout)
        u.projects.append(root)
        u.root = root
        self.render()
        return u


def gen_universe(rng, opts=None):
    return Gen(rng, opts).universe()


if __name__ == "__main__":
    import sys
    sys.path.insert(0, os.path.dirname(os.path.abspath(__file__)))
    from vcommon import Rng
    seed = int(sys.argv[1]) if len(sys.argv) > 1 else 0
    u = gen_universe(Rng(seed), {"warnings": True, "examples": True})
    if len(sys.argv) > 2:
        u.write(sys.argv[2])
    print(json.dumps(u.describe(), indent=1))
