"""Helpers shared by the C24 / C25 / C27 monitors (CLI-driven, projgen2 universes).

A *case description* (plain JSON-able dict, also what goes into replay files) carries the tree of source
texts plus the generator's ground truth, so a replay never depends on the generator's RNG stream:

  {"tree": {relpath: text}, "root": "root", "name": <root project name>, "opts": {...}, "sources": [...],
   "files": [{"uid","proj","path","root","example","nitems","srcdir","rel"}],
   "graph": {uid: [uid]}, "induced": [[uid, uid]], "features": [...], "std_users": [uid]}
"""
import hashlib
import json
import os
import re
import shutil
from concurrent.futures import ThreadPoolExecutor

import projgen2
from vcommon import veryl, panicked

MARK_RE = re.compile(r"@@SRC:(F\d+)@@")


def case_from_universe(u):
    files = []
    for p in u.projects:
        for f in p.files:
            files.append({"uid": f.uid, "proj": p.dirname, "path": f.path(), "root": p is u.root,
                          "example": f.example, "nitems": len(f.items), "srcdir": f.srcdir, "rel": f.rel,
                          "items": [f"{i.kind}:{i.name}" for i in f.items],
                          "item_uids": [i.uid for i in f.items],
                          "warn": any(i.attr.get("warn") for i in f.items),
                          "std": any(i.attr.get("std") for i in f.items)})
    return {"tree": u.tree(), "root": u.root.dirname, "name": u.root.name, "opts": u.root.opts,
            "sources": u.root.sources, "files": files,
            "graph": {k: sorted(v) for k, v in u.file_graph().items()},
            "graph_all": {k: sorted(v) for k, v in u.file_graph(soft=True).items()},
            "induced": sorted(set((a.file.uid, b.file.uid) for a, b in u.induced if a.file is not b.file)),
            "item_graph": {k: sorted(v) for k, v in u.item_graph().items()},
            "features": sorted(u.features)}


def write_case(case, dirpath):
    projgen2.write_tree(dirpath, case["tree"])
    return os.path.join(dirpath, case["root"])


def jobs(args, default=8):
    try:
        return max(1, int(args.extra.get("jobs", default)))
    except ValueError:
        return default


def run_cases(n, njobs, work, handle):
    """work(i) runs on a pool thread (it only starts subprocesses); handle(i, result|exception) runs on the
    calling thread, in completion order, so `Run` needs no locking."""
    with ThreadPoolExecutor(max_workers=njobs) as ex:
        futs = {ex.submit(work, i): i for i in range(n)}
        from concurrent.futures import as_completed
        for fu in as_completed(futs):
            i = futs[fu]
            try:
                handle(i, fu.result(), None)
            except Exception as e:          # harness error: never a violation
                import traceback
                handle(i, None, "".join(traceback.format_exception(type(e), e, e.__traceback__))[-1500:])


def rmtree(p):
    shutil.rmtree(p, ignore_errors=True)


def copytree(src, dst):
    """Copy preserving mtimes (ns) of files and directories."""
    shutil.copytree(src, dst, symlinks=True, copy_function=shutil.copy2)


def read_files(root, want=lambda rel: True):
    """{relative path: bytes}"""
    out = {}
    for dp, dn, fn in os.walk(root):
        dn.sort()
        for f in sorted(fn):
            p = os.path.join(dp, f)
            rel = os.path.relpath(p, root)
            if want(rel) and os.path.isfile(p) and not os.path.islink(p):
                with open(p, "rb") as fh:
                    out[rel] = fh.read()
    return out


def sha(b):
    return hashlib.sha256(b).hexdigest()[:16]


# -- diagnostics -------------------------------------------------------------------------------

_DIAG_HEAD = re.compile(r"^(Error|Warning|Advice): (\S+)(?: \((\S+)\))?\s*$")
_DIAG_LOC = re.compile(r"\[(.+?):(\d+):(\d+)\]")


def parse_diags(stderr, strip_prefix=None):
    """miette's graphical report -> list of records (severity, code, message, file, line, col).
    Log lines ([INFO ] ...) and the leading 'Error:   x veryl check failed' wrapper are ignored."""
    recs = []
    cur = None
    for line in stderr.splitlines():
        m = _DIAG_HEAD.match(line)
        if m:
            cur = {"severity": m.group(1), "code": m.group(2), "message": None, "file": None, "line": None,
                   "col": None}
            recs.append(cur)
            continue
        if cur is None:
            continue
        s = line.strip()
        if cur["message"] is None and (s.startswith("×") or s.startswith("⚠") or s.startswith("☞")
                                       or s.startswith("x ") or s.startswith("! ")):
            cur["message"] = s[1:].strip()
            continue
        if cur["file"] is None:
            m = _DIAG_LOC.search(line)
            if m and ("╭" in line or ",-" in line):
                f = m.group(1)
                if strip_prefix and f.startswith(strip_prefix):
                    f = "<ROOT>" + f[len(strip_prefix):]
                cur["file"], cur["line"], cur["col"] = f, int(m.group(2)), int(m.group(3))
    return recs


def diag_multiset(recs):
    return sorted(json.dumps(r, sort_keys=True) for r in recs)


def processed_files(stderr):
    """Order in which the pipeline took the files ([INFO ] Processing file (...))."""
    return re.findall(r"Processing file \((.+?)\)\s*$", stderr, flags=re.M)


def logged_outputs(stderr):
    """(dst paths, map paths) as written by a --verbose build, in order."""
    dst = re.findall(r"Output file \((.+?)\)\s*$", stderr, flags=re.M)
    mp = re.findall(r"Output map \((.+?)\)\s*$", stderr, flags=re.M)
    return dst, mp


# -- filelists ---------------------------------------------------------------------------------

def filelist_name(name, ftype):
    return f"{name}.list.rb" if ftype == "flgen" else f"{name}.f"


def parse_filelist(text, ftype, base):
    """Returns (absolute paths, malformed lines)."""
    out, bad = [], []
    for line in text.split("\n"):
        if line == "":
            continue
        if ftype == "absolute":
            if not line.startswith("/"):
                bad.append(line)
                continue
            out.append(os.path.normpath(line))
        elif ftype == "relative":
            if line.startswith("/") or line != line.strip():
                bad.append(line)
                continue
            out.append(os.path.normpath(os.path.join(base, line)))
        else:
            m = re.fullmatch(r"source_file '([^']+)'", line)
            if not m or m.group(1).startswith("/"):
                bad.append(line)
                continue
            out.append(os.path.normpath(os.path.join(base, m.group(1))))
    return out, bad


def sv_has_content(text):
    """True if the emitted text has anything but whitespace and comments."""
    t = re.sub(r"/\*.*?\*/", "", text, flags=re.S)
    t = re.sub(r"//[^\n]*", "", t)
    return t.strip() != ""


def markers(text):
    return [(m.start(), m.group(1)) for m in MARK_RE.finditer(text)]


def run_veryl(cmd, cwd, home, timeout=600):
    code, out, err = veryl(cmd, cwd=cwd, home=home, timeout=timeout)
    return {"cmd": cmd, "code": code, "out": out, "err": err, "panic": panicked(err, code)}


def tail(s, n=1200):
    s = "\n".join(l for l in s.splitlines() if "Processing file" not in l)
    return s[-n:]
