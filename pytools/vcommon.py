"""Shared plumbing for the CLI-driven monitors (Python side); mirrors harness/vcommon/src/run.rs.

Exit 0 = held on everything observed, 1 = violated (VIOLATION line printed), 2 = inconclusive.
"""
import hashlib
import json
import os
import shutil
import subprocess
import sys
import tempfile
import time

MASK = (1 << 64) - 1
VERIF = os.environ.get("VERIF_DIR", "/verif")
REPO = os.environ.get("VERIF_REPO", "/repo")
VERYL = os.environ.get("VERIF_VERYL", os.path.join(VERIF, "target/cli/release-verylup/veryl"))
VERYL_LS = os.environ.get("VERIF_VERYL_LS", os.path.join(VERIF, "target/cli/release-verylup/veryl-ls"))
HARNESS_BIN = os.environ.get("VERIF_HARNESS_BIN", os.path.join(VERIF, "target/harness/release"))


def mix64(z):
    z = (z + 0x9E3779B97F4A7C15) & MASK
    z = ((z ^ (z >> 30)) * 0xBF58476D1CE4E5B9) & MASK
    z = ((z ^ (z >> 27)) * 0x94D049BB133111EB) & MASK
    return z ^ (z >> 31)


def hash_str(s):
    return int.from_bytes(hashlib.blake2b(s.encode("utf-8", "surrogatepass"), digest_size=8).digest(), "little")


class Rng:
    """SplitMix64; case i of property P at seed S uses Rng.for_case(S, P, i)."""

    def __init__(self, seed):
        self.s = mix64(seed ^ 0x5EED5EED5EED5EED)

    @staticmethod
    def for_case(seed, prop, case):
        r = Rng(0)
        r.s = mix64(mix64(seed) ^ hash_str(prop) ^ mix64((case * 0x9E3779B9) & MASK))
        return r

    def next(self):
        self.s = (self.s + 0x9E3779B97F4A7C15) & MASK
        z = self.s
        z = ((z ^ (z >> 30)) * 0xBF58476D1CE4E5B9) & MASK
        z = ((z ^ (z >> 27)) * 0x94D049BB133111EB) & MASK
        return z ^ (z >> 31)

    def below(self, n):
        return self.next() % n if n > 0 else 0

    def range(self, lo, hi):
        return lo + self.below(hi - lo + 1)

    def chance(self, num, den):
        return self.below(den) < num

    def bool(self):
        return self.next() & 1 == 1

    def pick(self, xs):
        return xs[self.below(len(xs))]

    def shuffle(self, xs):
        for i in range(len(xs) - 1, 0, -1):
            j = self.below(i + 1)
            xs[i], xs[j] = xs[j], xs[i]

    def fork(self):
        return Rng(self.next())


class Args:
    def __init__(self, argv=None):
        argv = list(sys.argv[1:] if argv is None else argv)
        self.prop = ""
        self.tier = "quick"
        self.seed = 0
        self.evidence = None
        self.replay_dir = None
        self.replay = None
        self.known = os.path.join(VERIF, "known_findings.json")
        self.extra = {}
        self.rest = []
        i = 0
        while i < len(argv):
            a = argv[i]
            if a in ("--prop", "--tier", "--seed", "--evidence", "--replay-dir", "--replay", "--known", "--set", "--jobs"):
                v = argv[i + 1]
                i += 2
                if a == "--prop": self.prop = v
                elif a == "--tier": self.tier = v
                elif a == "--seed": self.seed = int(v)
                elif a == "--evidence": self.evidence = v
                elif a == "--replay-dir": self.replay_dir = v
                elif a == "--replay": self.replay = v
                elif a == "--known": self.known = v
                elif a == "--jobs": self.extra["jobs"] = v
                elif a == "--set":
                    k, _, val = v.partition("=")
                    self.extra[k] = val
            else:
                self.rest.append(a)
                i += 1
        if not self.evidence:
            self.evidence = os.path.join(VERIF, "evidence", f"{self.prop}.json")
        if not self.replay_dir:
            self.replay_dir = os.path.join(VERIF, "replay", self.prop)

    def thorough(self):
        return self.tier == "thorough"

    def budget(self, name, quick, thorough):
        if name in self.extra:
            return int(self.extra[name])
        return thorough if self.thorough() else quick


class Run:
    """level: exploration | fault_enumeration | translation_validation | other"""

    def __init__(self, args, level, rule):
        self.args = args
        self.level = level
        self.rule = rule
        self.t0 = time.time()
        self.evaluations = 0
        self.distinct = set()
        self.samples = []
        self.counters = {}
        self.sets = {}
        self.extra = {}
        self.assumptions = []
        self.violations = []
        self.violation_sigs = set()
        self.known_seen = {}
        self.inconclusive_cases = []
        self.notes = []
        self.known = []
        try:
            data = json.load(open(args.known))
            for f in data.get("findings", []):
                if f.get("property") == args.prop:
                    self.known.append(f)
        except FileNotFoundError:
            pass
        self.scratch_root = os.path.join(VERIF, "scratch")
        os.makedirs(self.scratch_root, exist_ok=True)
        self._scratch = None

    # -- scratch space (removed at exit) -------------------------------------------------
    def scratch(self):
        if self._scratch is None:
            self._scratch = tempfile.mkdtemp(prefix=f"{self.args.prop}-{os.getpid()}-", dir=self.scratch_root)
        return self._scratch

    def cleanup(self):
        if self._scratch and not os.environ.get("VERIF_KEEP_SCRATCH"):
            shutil.rmtree(self._scratch, ignore_errors=True)

    # -- counters -------------------------------------------------------------------------
    def eval(self, n=1):
        self.evaluations += n

    def nontrivial(self, key):
        self.distinct.add(key if isinstance(key, int) else hash_str(str(key)))

    def count(self, key, n=1):
        self.counters[key] = self.counters.get(key, 0) + n

    def seen(self, set_name, member):
        self.sets.setdefault(set_name, set()).add(str(member))

    def sample(self, v, cap=6):
        if len(self.samples) < cap:
            self.samples.append(v)

    def assume(self, text):
        self.assumptions.append(text)

    def note(self, text):
        if len(self.notes) < 40:
            self.notes.append(text)

    def inconclusive(self, reason):
        self.inconclusive_cases.append(reason)

    # -- verdicts -------------------------------------------------------------------------
    def violation(self, signature, what, replay):
        for k in self.known:
            if k.get("status") == "known" and k.get("signature") == signature:
                if signature not in self.known_seen:
                    print(f"KNOWN-FINDING: property={self.args.prop} {k.get('what', '')}", flush=True)
                self.known_seen[signature] = self.known_seen.get(signature, 0) + 1
                return
        if signature in self.violation_sigs:
            self.count("violations_duplicate_signature")
            return
        self.violation_sigs.add(signature)
        if len(self.violation_sigs) > 25:
            self.count("violations_not_printed")
            return
        os.makedirs(self.args.replay_dir, exist_ok=True)
        path = os.path.join(self.args.replay_dir, f"{hash_str(signature):016x}.json")
        with open(path, "w") as f:
            json.dump({"property": self.args.prop, "signature": signature, "what": what, "seed": self.args.seed,
                       "tier": self.args.tier, "case": replay}, f, indent=1, default=str)
        print(f"VIOLATION property={self.args.prop} replay={path}", flush=True)
        print(f"  what: {what.splitlines()[0] if what else ''}", flush=True)
        self.violations.append({"signature": signature, "what": what, "replay": path})

    def finish(self, floors=()):
        nviol = len(self.violations)
        if nviol == 0:
            for name, minimum in floors:
                if name == "evaluations":
                    have = self.evaluations
                elif name == "distinct_nontrivial":
                    have = len(self.distinct)
                elif name in self.counters:
                    have = self.counters[name]
                elif name in self.sets:
                    have = len(self.sets[name])
                else:
                    have = 0
                if have < minimum:
                    self.inconclusive(f"floor {name}: observed {have} < required {minimum}")
        cov = {
            "evaluations": self.evaluations,
            "distinct_nontrivial": len(self.distinct),
            "rule": self.rule,
            "samples": self.samples,
        }
        if self.level == "translation_validation":
            cov["programs"] = self.counters.get("programs", len(self.distinct))
            cov["disagreements_checked"] = self.counters.get("disagreements_checked", 0)
        for k, v in self.counters.items():
            cov.setdefault(k, v)
        for k, v in self.sets.items():
            cov[f"{k}_distinct"] = len(v)
            cov[f"{k}_members"] = sorted(v)[:64]
        cov.update(self.extra)
        verdict = "violated" if nviol else ("inconclusive" if self.inconclusive_cases else "held_on_observed")
        ev = {
            "property_id": self.args.prop, "tier": self.args.tier, "seed": self.args.seed, "level": self.level,
            "coverage": cov, "assumptions": self.assumptions, "wall_s": time.time() - self.t0,
            "violations": nviol, "violation_list": self.violations, "verdict": verdict,
            "inconclusive_cases": self.inconclusive_cases, "known_findings_seen": self.known_seen,
            "notes": self.notes,
        }
        os.makedirs(os.path.dirname(self.args.evidence), exist_ok=True)
        with open(self.args.evidence, "w") as f:
            json.dump(ev, f, indent=1, default=str)
        print(f"[{self.args.prop}] tier={self.args.tier} seed={self.args.seed} evaluations={self.evaluations} "
              f"distinct_nontrivial={len(self.distinct)} violations={nviol} known_findings={len(self.known_seen)} "
              f"inconclusive={len(self.inconclusive_cases)} wall={time.time() - self.t0:.1f}s", flush=True)
        self.cleanup()
        if nviol:
            sys.exit(1)
        if self.inconclusive_cases:
            for r in self.inconclusive_cases[:10]:
                print(f"INCONCLUSIVE property={self.args.prop} reason={r}", flush=True)
            sys.exit(2)
        sys.exit(0)


# -- running the real CLI ----------------------------------------------------------------

def cli_env(home, extra=None):
    """Environment for a veryl process with a private HOME / user cache."""
    env = {k: v for k, v in os.environ.items() if not k.startswith("VERYL_")}
    env["HOME"] = home
    env["XDG_CACHE_HOME"] = os.path.join(home, ".cache")
    env["XDG_CONFIG_HOME"] = os.path.join(home, ".config")
    env["XDG_DATA_HOME"] = os.path.join(home, ".local/share")
    env["NO_COLOR"] = "1"
    env["CLICOLOR"] = "0"
    env["TERM"] = "dumb"
    for d in (env["XDG_CACHE_HOME"], env["XDG_CONFIG_HOME"], env["XDG_DATA_HOME"]):
        os.makedirs(d, exist_ok=True)
    if extra:
        env.update(extra)
    return env


def veryl(args, cwd, home, extra_env=None, timeout=600, binary=None):
    """Run veryl; returns (exit_code, stdout, stderr). A timeout returns (None, out, err)."""
    cmd = [binary or VERYL] + list(args)
    try:
        p = subprocess.run(cmd, cwd=cwd, env=cli_env(home, extra_env), stdout=subprocess.PIPE,
                           stderr=subprocess.PIPE, timeout=timeout)
        return p.returncode, p.stdout.decode("utf-8", "replace"), p.stderr.decode("utf-8", "replace")
    except subprocess.TimeoutExpired as e:
        return None, (e.stdout or b"").decode("utf-8", "replace"), (e.stderr or b"").decode("utf-8", "replace")


def tree_digest(root, exclude=()):
    """{relative path: sha256 hex} for every regular file under root."""
    out = {}
    for dp, dn, fn in os.walk(root):
        dn.sort()
        for f in sorted(fn):
            p = os.path.join(dp, f)
            rel = os.path.relpath(p, root)
            if any(rel == e or rel.startswith(e.rstrip("/") + "/") for e in exclude):
                continue
            try:
                out[rel] = hashlib.sha256(open(p, "rb").read()).hexdigest()
            except OSError:
                out[rel] = "<unreadable>"
    return out


def panicked(stderr, code):
    return code == 101 or (code is not None and code < 0) or "panicked at" in stderr or "RUST_BACKTRACE" in stderr
