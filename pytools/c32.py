#!/usr/bin/env python3
"""C32 -- test results do not depend on scheduling.

Generated suites of native `#[test]` testbenches sharing DUT modules are run with the real
`veryl test --format json --seed S` under different worker counts (`taskset` masks ->
available_parallelism), dispatch orders (pre-written `.build/test_timings`), backends and repeated
runs.  For a fixed seed every test's (status, message, captured output) must be identical in all of
them (runtime fields are never compared).  Every `$tb::random` draw printed by the testbenches is
parsed back and must lie within its requested bounds; a different seed must change the streams.

The suite generator / runner / comparer are also used by c34b.py.
"""
import json
import os
import re
import shutil
import sys
import traceback

from vcommon import Args, Run, Rng, veryl, panicked, hash_str, VERYL

PROP = "C32"

DUT_TEXT = """module Acc #(
    param W: u32 = 8,
) (
    clk: input  clock   ,
    rst: input  reset   ,
    d  : input  logic<W>,
    q  : output logic<W>,
) {
    always_ff {
        if_reset {
            q = 0;
        } else {
            q += d;
        }
    }
}

module Mix #(
    param W: u32 = 8,
) (
    a: input  logic<W>,
    b: input  logic<W>,
    y: output logic<W>,
) {
    assign y = (a ^ b) + (a & b);
}

module Pipe #(
    param W: u32 = 8,
    param N: u32 = 2,
) (
    clk: input  clock   ,
    rst: input  reset   ,
    d  : input  logic<W>,
    q  : output logic<W>,
) {
    var s: logic<W> [N + 1];
    assign s[0] = d;
    for i in 0..N :g {
        inst u: Acc #( W: W ) (
            clk: clk     ,
            rst: rst     ,
            d  : s[i]    ,
            q  : s[i + 1],
        );
    }
    assign q = s[N];
}

module Top2 #(
    param W: u32 = 8,
) (
    clk: input  clock   ,
    rst: input  reset   ,
    d  : input  logic<W>,
    q  : output logic<W>,
) {
    var a: logic<W>;
    var p: logic<W>;
    inst ua: Acc #( W: W ) ( clk, rst, d, q: a );
    inst up: Pipe #( W: W, N: 3 ) ( clk, rst, d: a, q: p );
    inst um: Mix #( W: W ) ( a: a, b: p, y: q );
}

module Wide #(
    param W: u32 = 8,
    param K: u32 = 4,
) (
    clk: input  clock   ,
    rst: input  reset   ,
    d  : input  logic<W>,
    q  : output logic<W>,
) {
    var t: logic<W> [K + 1];
    assign t[0] = d;
    for i in 0..K :g {
        inst u: Top2 #( W: W ) (
            clk: clk     ,
            rst: rst     ,
            d  : t[i]    ,
            q  : t[i + 1],
        );
    }
    assign q = t[K];
}

// ---- DUTs with a derived clock declared in a SUBMODULE (nested below the reuse boundary) ----
module DivLeaf #(
    param W: u32 = 8,
) (
    clk: input  clock   ,
    rst: input  reset   ,
    d  : input  logic<W>,
    q  : output logic<W>,
) {
    var toggle: logic;
    always_ff (clk, rst) {
        if_reset {
            toggle = 0;
        } else {
            toggle = ~toggle;
        }
    }
    let div_clk: '_ clock = clk & toggle;
    always_ff (div_clk, rst) {
        if_reset {
            q = 0;
        } else {
            q += d + 1;
        }
    }
}

module GateLeaf #(
    param W: u32 = 8,
) (
    clk: input  clock   ,
    rst: input  reset   ,
    en : input  logic   ,
    d  : input  logic<W>,
    q  : output logic<W>,
) {
    let g_clk: '_ clock = clk & en;
    always_ff (g_clk, rst) {
        if_reset {
            q = 0;
        } else {
            q += d + 3;
        }
    }
}

// >= 256 bytes of state (64-entry register file) + a child with a divided clock
module BigDiv #(
    param W: u32 = 8,
) (
    clk: input  clock   ,
    rst: input  reset   ,
    d  : input  logic<W>,
    q  : output logic<W>,
) {
    var pad: logic<W> [64];
    var c  : logic<W>;
    always_ff (clk, rst) {
        if_reset {
            for i in 0..64 {
                pad[i] = 0;
            }
        } else {
            for i in 0..64 {
                pad[i] += 1;
            }
        }
    }
    inst u_leaf: DivLeaf #( W: W ) ( clk, rst, d, q: c );
    assign q = c ^ pad[0] ^ pad[63];
}

// >= 256 bytes of state + a child whose clock is gated by a register of this module
module BigGate #(
    param W: u32 = 8,
) (
    clk: input  clock   ,
    rst: input  reset   ,
    d  : input  logic<W>,
    q  : output logic<W>,
) {
    var pad: logic<W> [64];
    var c  : logic<W>;
    var en : logic;
    always_ff (clk, rst) {
        if_reset {
            en = 0;
            for i in 0..64 {
                pad[i] = 0;
            }
        } else {
            en = ~en;
            for i in 0..64 {
                pad[i] += 2;
            }
        }
    }
    inst u_leaf: GateLeaf #( W: W ) ( clk, rst, en, d, q: c );
    assign q = c + pad[1];
}

// two levels: test -> BigWrap -> BigDiv -> DivLeaf, plus a plain sibling
module BigWrap #(
    param W: u32 = 8,
) (
    clk: input  clock   ,
    rst: input  reset   ,
    d  : input  logic<W>,
    q  : output logic<W>,
) {
    var a: logic<W>;
    var b: logic<W>;
    inst u_acc: Acc #( W: W ) ( clk, rst, d, q: a );
    inst u_big: BigDiv #( W: W ) ( clk, rst, d: a, q: b );
    assign q = a ^ b;
}
"""

NESTED_CLOCK_DUTS = ["BigDiv", "BigGate", "BigWrap"]
LAYOUTS = ["plain", "extra_state_first", "other_instance_first", "two_instances"]

BUILTIN = [("u8", 8, False), ("u16", 16, False), ("u32", 32, False), ("u64", 64, False),
           ("i8", 8, True), ("i16", 16, True), ("i32", 32, True), ("i64", 64, True), ("bbool", 1, False)]
HANDLE_NAMES = ["r0", "r1", "rnd", "gen_a", "data_gen", "h2", "h3", "noise"]


def lit(v, width):
    """A literal for the non-negative value v that the analyzer takes at face value."""
    if v < (1 << 31):
        return str(v)
    return f"{width}'h{v:x}"


def to_signed(raw, width):
    return raw - (1 << width) if raw >> (width - 1) & 1 else raw


class Recorder:
    """Per-suite stand-in for vcommon.Run so that suites can run on worker threads; merged by
    `merge_into(run)` on the main thread (Run itself is not thread safe)."""

    def __init__(self):
        self.log = []

    def count(self, key, n=1):
        self.log.append(("count", key, n))

    def seen(self, name, member):
        self.log.append(("seen", name, member))

    def note(self, text):
        self.log.append(("note", text))

    def sample(self, v, cap=6):
        self.log.append(("sample", v, cap))

    def inconclusive(self, reason):
        self.log.append(("inconclusive", reason))

    def violation(self, sig, what, replay):
        self.log.append(("violation", sig, what, replay))

    def merge_into(self, run):
        for e in self.log:
            getattr(run, e[0])(*e[1:])


# ======================================================================================
# suite generation
# ======================================================================================

def gen_type(rng, t, k):
    """-> dict(decl: gen line or None, name, width, signed, cls)"""
    r = rng.below(100)
    if r < 55:
        n, w, s = rng.pick(BUILTIN)
        return {"decl": None, "name": n, "width": w, "signed": s, "cls": "builtin"}
    if r < 94:
        w = rng.pick([1, 2, 3, 5, 7, 8, 13, 16, 17, 24, 31, 32, 33, 40, 48, 63, 64, rng.range(1, 64)])
        return {"decl": f"gen ty{k}: type = bit<{w}>;", "name": f"ty{k}", "width": w, "signed": False, "cls": "gen_bit"}
    w = rng.pick([2, 5, 7, 12, 20, 33, 64])
    return {"decl": f"gen ty{k}: type = signed bit<{w}>;", "name": f"ty{k}", "width": w, "signed": True,
            "cls": "gen_signed_bit"}


def gen_bounds(rng, ty):
    """-> (lo, hi, form): requested bounds as Python ints in the handle's value domain."""
    w, s = ty["width"], ty["signed"]
    tmin = -(1 << (w - 1)) if s else 0
    tmax = (1 << (w - 1)) - 1 if s else (1 << w) - 1
    r = rng.below(100)
    if r < 12:
        return tmin, tmax, "full"
    if r < 22:
        v = rng.range(tmin, tmax)
        return v, v, "point"
    if r < 32:
        e = rng.pick([(tmin, tmin + min(3, tmax - tmin)), (tmax - min(3, tmax - tmin), tmax), (tmin, tmin), (tmax, tmax)])
        return e[0], e[1], "extreme"
    if r < 55:
        # small bounds around zero: what users typically write
        a = rng.range(max(tmin, -100), min(tmax, 100))
        b = rng.range(max(tmin, -100), min(tmax, 100))
        if a > b and rng.chance(3, 4):
            a, b = b, a
        return a, b, ("swapped" if a > b else "small")
    a = rng.range(tmin, tmax)
    b = rng.range(tmin, tmax)
    if rng.chance(1, 2) and tmax - tmin > 16:
        b = max(tmin, min(tmax, a + rng.range(-9, 9)))
    if a > b and rng.chance(3, 4):
        a, b = b, a
    return a, b, ("swapped" if a > b else "plain")


def gen_test(rng, name, handle_pool, force=None):
    """-> (text, draws, info) where draws: tag -> metadata used by the bounds checker.
    force = (dut, W, layout): a test of the suite's focus DUT (nested derived clock) in a given layout."""
    W = rng.pick([4, 8, 8, 13, 16, 32, 40, 64])
    dut = rng.pick(["Acc", "Acc", "Pipe", "Top2", "Top2", "Mix", "Wide", "none", "BigDiv", "BigGate", "BigWrap"])
    iters = rng.range(2, 9)
    nh = rng.range(0, 4) if rng.chance(9, 10) else 0
    layout = rng.pick(LAYOUTS + ["plain", "plain"])
    if dut in NESTED_CLOCK_DUTS:
        W = rng.pick([8, 13, 16, 32])
    if force:
        dut, W, layout = force
        iters = rng.range(7, 12)
        nh = rng.range(0, 1)
    if dut in ("none", "Mix"):
        layout = "plain"
    lines = [f"#[test({name})]", f"module {name} {{"]
    body = []
    decl = ["    inst clk: $tb::clock_gen;", "    inst rst: $tb::reset_gen ( clk );"]
    draws = {}
    init = []
    handles = []
    names = list(handle_pool)
    rng.shuffle(names)
    # the handle that drives the DUT
    if dut != "none":
        decl.append(f"    gen dty: type = bit<{W}>;")
        decl.append("    var hd: $tb::random::<dty>;")
        decl.append("    var xd: dty;")
        decl.append(f"    var d: logic<{W}>;")
        decl.append(f"    var q: logic<{W}>;")
        # testbench layouts that put the DUT at different ff/comb offsets
        if layout == "extra_state_first":
            n = rng.range(2, 6)
            decl.append(f"    var extra: logic<64> [{n}];")
            decl.append("    var mix  : logic<64>;")
            decl.append("    always_ff (clk, rst) {")
            decl.append("        if_reset {")
            decl.append(f"            for i in 0..{n} {{")
            decl.append("                extra[i] = 0;")
            decl.append("            }")
            decl.append("        } else {")
            decl.append(f"            for i in 0..{n} {{")
            decl.append("                extra[i] += 3;")
            decl.append("            }")
            decl.append("        }")
            decl.append("    }")
            decl.append(f"    assign mix = extra[0] ^ extra[{n - 1}];")
        elif layout == "other_instance_first":
            decl.append("    var d9: logic<8>;")
            decl.append("    var q9: logic<8>;")
            decl.append("    assign d9 = 5;")
            decl.append("    inst pre: Acc #( W: 8 ) ( clk, rst, d: d9, q: q9 );")
        elif layout == "two_instances":
            decl.append(f"    var d0: logic<{W}>;")
            decl.append(f"    var q0: logic<{W}>;")
            decl.append("    assign d0 = 1;")
            if dut == "Pipe":
                decl.append(f"    inst dut0: Pipe #( W: {W}, N: 2 ) ( clk, rst, d: d0, q: q0 );")
            elif dut == "Wide":
                decl.append(f"    inst dut0: Wide #( W: {W}, K: 2 ) ( clk, rst, d: d0, q: q0 );")
            else:
                decl.append(f"    inst dut0: {dut} #( W: {W} ) ( clk, rst, d: d0, q: q0 );")
        if dut == "Mix":
            decl.append(f"    var b: logic<{W}>;")
            decl.append(f"    inst dut: Mix #( W: {W} ) ( a: d, b: b, y: q );")
            init.append("        b = 3;")
        elif dut == "Pipe":
            decl.append(f"    inst dut: Pipe #( W: {W}, N: {rng.pick([1, 2, 2, 3])} ) ( clk, rst, d, q );")
        elif dut == "Wide":
            decl.append(f"    inst dut: Wide #( W: {W}, K: {rng.pick([2, 4])} ) ( clk, rst, d, q );")
        else:
            decl.append(f"    inst dut: {dut} #( W: {W} ) ( clk, rst, d, q );")
        init.append("        d = 0;")
        draws[f"{name}.d"] = {"kind": "get", "width": W, "signed": False, "cls": "gen_bit", "type": f"bit<{W}>",
                              "handle": "hd", "seeded": False}
    for k in range(nh):
        ty = gen_type(rng, name, k)
        hn = names[k % len(names)]
        if ty["decl"]:
            decl.append("    " + ty["decl"])
        decl.append(f"    var {hn}: $tb::random::<{ty['name']}>;")
        decl.append(f"    var x{k}: {ty['name']};")
        seeded = rng.chance(1, 6)
        if seeded:
            init.append(f"        {hn}.seed({rng.range(0, 1 << 20)});")
        if rng.chance(1, 5):
            decl.append(f"    var sd{k}: u64;")
            init.append(f"        sd{k} = {hn}.get_seed();")
            init.append(f"        $display(\"S {name}.{k} %x\", sd{k});")
        handles.append((k, hn, ty, seeded))
    body_loop = []
    nstmt = 0
    for (k, hn, ty, seeded) in handles:
        for _ in range(rng.range(1, 2)):
            tag = f"{name}.{nstmt}"
            nstmt += 1
            meta = {"width": ty["width"], "signed": ty["signed"], "cls": ty["cls"], "type": ty["name"],
                    "handle": hn, "seeded": seeded}
            if rng.chance(2, 5) or ty["width"] == 1 and rng.bool():
                body_loop.append(f"            x{k} = {hn}.get();")
                meta["kind"] = "get"
            else:
                lo, hi, form = gen_bounds(rng, ty)
                how = rng.below(10)
                w = ty["width"]
                neg = lo < 0 or hi < 0
                if how < 3 or (not ty["signed"] and how < 6) or (ty["signed"] and w > 32 and how < 5):
                    # typed variables of exactly the element type carry the bounds
                    decl.append(f"    var lo{nstmt}: {ty['name']};")
                    decl.append(f"    var hi{nstmt}: {ty['name']};")
                    for nm, v in (("lo", lo), ("hi", hi)):
                        if v < 0:
                            init.append(f"        {nm}{nstmt} = 0 - {lit(-v, max(w, 2))};")
                        else:
                            init.append(f"        {nm}{nstmt} = {lit(v, w)};")
                    args = f"lo{nstmt}, hi{nstmt}"
                    meta["form"] = form + ":typed_var"
                elif not neg:
                    args = f"{lit(lo, w)}, {lit(hi, w)}"
                    meta["form"] = form + ":literal"
                else:
                    # negative bounds written as plain (32-bit) literals, the natural user spelling
                    args = ", ".join(str(v) if abs(v) < (1 << 31) else ("0 - " + lit(-v, w) if v < 0 else lit(v, w))
                                     for v in (lo, hi))
                    meta["form"] = form + ":neg_literal"
                    if w > 32 and any(v < 0 and abs(v) < (1 << 31) for v in (lo, hi)):
                        # `-5` is a 32-bit expression; the handle is wider
                        meta["cls"] = ty["cls"] + ":negative_bound_narrower_than_handle"
                body_loop.append(f"            x{k} = {hn}.get_range({args});")
                meta.update(kind="range", lo=lo, hi=hi)
            body_loop.append(f"            $display(\"D {tag} %x\", x{k});")
            if rng.chance(1, 4):
                body_loop.append(f"            $display(\"V {tag} %d\", x{k});")
            draws[tag] = meta
            if not force and rng.chance(1, 8) and not ty["signed"] and ty["width"] >= 4:
                full = (1 << ty["width"]) - 1
                thr = rng.range(full - full // 8, full)
                body_loop.append(f"            $assert(x{k} <: {lit(thr, ty['width'])}, \"{tag} value %d not below {thr} (i=%d)\", x{k}, i);")
    if dut != "none":
        body_loop.append("            xd = hd.get();")
        body_loop.append(f"            $display(\"D {name}.d %x\", xd);")
        body_loop.append("            d = xd;")
    body_loop.append("            clk.next();" if rng.chance(4, 5) else f"            clk.next({rng.range(2, 5)});")
    if dut != "none":
        body_loop.append(f"            $display(\"O {name} q=%x i=%d\", q, i);")
        if layout == "two_instances":
            body_loop.append(f"            $display(\"O0 {name} q0=%x\", q0);")
        elif layout == "other_instance_first":
            body_loop.append(f"            $display(\"O9 {name} q9=%x\", q9);")
        elif layout == "extra_state_first":
            body_loop.append(f"            $display(\"OX {name} mix=%x\", mix);")
    r = rng.below(14) if not force else 99
    if r == 0:
        body_loop.append(f"            $assert(i != {rng.below(iters)}, \"{name} gives up at %d\", i);")
    elif r == 1:
        body_loop.append(f"            $assert(i != {rng.below(iters)});")
    elif r == 2 and dut != "none":
        body_loop.append(f"            $assert(q[0] == 1'b0, \"{name}: odd q %x\", q);")
    body += init
    body.append("        rst.assert();")
    body.append(f"        for i in 0..{iters} {{")
    body += body_loop
    body.append("        }")
    body.append(f"        $display(\"E {name} done\");")
    body.append("        $finish();")
    text = "\n".join(lines + decl + ["    initial {"] + body + ["    }", "}"]) + "\n"
    return text, draws, {"dut": dut, "W": W, "layout": layout}


def gen_suite(rng, index, min_tests=8, max_tests=40, prefix="s"):
    ntests = rng.range(min_tests, max_tests)
    nfiles = rng.range(1, 4)
    files = {"src/dut.veryl": DUT_TEXT}
    draws = {}
    tests = []
    texts = [[] for _ in range(nfiles)]
    # Every suite has a focus DUT with a derived clock in a submodule (>= 256 bytes of state) that at
    # least three tests instantiate with the same parameters but in different testbench layouts, so
    # that CLI DUT reuse relocates one conversion to different ff/comb offsets.
    focus = (rng.pick(NESTED_CLOCK_DUTS), rng.pick([8, 13, 16, 32]))
    nfocus = rng.range(3, 5)
    forced = {}
    slots = list(range(ntests))
    rng.shuffle(slots)
    for j, t in enumerate(slots[:nfocus]):
        forced[t] = (focus[0], focus[1], LAYOUTS[j % len(LAYOUTS)])
    dut_use = {}
    for t in range(ntests):
        name = f"t{index}_{t:02d}"
        text, d, info = gen_test(rng, name, HANDLE_NAMES, force=forced.get(t))
        texts[rng.below(nfiles)].append(text)
        draws.update(d)
        tests.append(name)
        if info["dut"] != "none":
            dut_use.setdefault(f"{info['dut']}#{info['W']}", []).append((name, info["layout"]))
    for i, parts in enumerate(texts):
        if parts:
            files[f"src/tests_{i}.veryl"] = "\n".join(parts)
    cfg = {"name": f"{prefix}{index}", "exclude_std": True}
    fkey = f"{focus[0]}#{focus[1]}"
    shapes = {
        "focus_dut": fkey,
        "focus_tests": [n for n, _ in dut_use.get(fkey, [])],
        "focus_layouts": sorted({l for _, l in dut_use.get(fkey, [])}),
        # every (DUT, params) used by >= 2 tests in >= 2 different layouts
        "shared_duts_at_distinct_layouts": sorted(k for k, v in dut_use.items()
                                                  if len(v) >= 2 and len({l for _, l in v}) >= 2),
        "nested_clock_duts_shared": sorted(k for k, v in dut_use.items()
                                           if len(v) >= 2 and k.split("#")[0] in NESTED_CLOCK_DUTS),
    }
    return {"index": index, "cfg": cfg, "files": files, "tests": tests, "draws": draws, "shapes": shapes}


def suite_toml(cfg):
    return ("[project]\n"
            f"name    = \"{cfg['name']}\"\n"
            "version = \"0.1.0\"\n\n"
            "[build]\n"
            "clock_type  = \"posedge\"\n"
            "reset_type  = \"async_low\"\n"
            "sources     = [\"src\"]\n"
            f"exclude_std = {'true' if cfg.get('exclude_std', True) else 'false'}\n")


def write_suite(suite, root):
    shutil.rmtree(root, ignore_errors=True)
    os.makedirs(os.path.join(root, "src"))
    with open(os.path.join(root, "Veryl.toml"), "w") as f:
        f.write(suite_toml(suite["cfg"]))
    for rel, text in suite["files"].items():
        with open(os.path.join(root, rel), "w") as f:
            f.write(text)


# ======================================================================================
# running one schedule
# ======================================================================================

def expected_dispatch(tests, timings):
    """cmd_test.rs: tests without history first (by name), then descending recorded time."""
    no_hist = sorted(t for t in tests if t not in timings)
    hist = sorted((t for t in tests if t in timings), key=lambda t: -timings[t])
    return no_hist + hist


def make_timings(rng, tests, style):
    """style: 'none' | 'perm' | 'partial' | 'reverse' -> (timings dict or None)"""
    if style == "none":
        return None
    order = list(tests)
    if style == "reverse":
        order.sort(reverse=True)
    else:
        rng.shuffle(order)
    if style == "partial":
        order = order[: max(1, len(order) * 2 // 3)]
    n = len(order)
    return {t: float(n - i) for i, t in enumerate(order)}


def run_schedule(root, home, sched, tests, timeout=900):
    """Runs `veryl test` once. -> dict(ok, results{name:(status,message,output)}, order[...], ...)"""
    tpath = os.path.join(root, ".build", "test_timings")
    if sched.get("timings") is None:
        try:
            os.remove(tpath)
        except FileNotFoundError:
            pass
    else:
        os.makedirs(os.path.dirname(tpath), exist_ok=True)
        with open(tpath, "w") as f:
            f.write("\n".join(f"{k} {v:.6f}" for k, v in sorted(sched["timings"].items())))
    cmd = ["test", "--quiet", "--format", "json", "--seed", str(sched["seed"]), "--backend", sched["backend"]]
    binary = None
    argv = cmd
    if sched.get("cpus"):
        binary = "/usr/bin/taskset"
        argv = ["-c", sched["cpus"], VERYL] + cmd
    code, out, err = veryl(argv, cwd=root, home=home, extra_env=sched.get("env"), timeout=timeout, binary=binary)
    res = {"code": code, "stderr_tail": err[-1500:], "ok": False, "results": {}, "order": []}
    if code is None:
        res["fail"] = "timeout"
        return res
    if panicked(err, code):
        res["fail"] = "panic"
        return res
    i = out.find("{\n")
    if i < 0:
        res["fail"] = "no-json"
        res["stdout_tail"] = out[-800:]
        return res
    try:
        rep = json.loads(out[i:])
    except ValueError:
        res["fail"] = "bad-json"
        res["stdout_tail"] = out[-800:]
        return res
    for t in rep.get("tests", []):
        if t["name"] in res["results"]:
            res["fail"] = "duplicate-test-in-report"
        res["results"][t["name"]] = (t.get("status"), t.get("message"), t.get("output"))
        res["order"].append(t["name"])
    res["summary"] = (rep.get("passed"), rep.get("failed"), rep.get("ignored"))
    res["degraded"] = rep.get("degraded_modules", [])
    res["backend_reported"] = rep.get("backend")
    if "fail" not in res:
        res["ok"] = True
        if set(res["results"]) != set(tests):
            res["ok"] = False
            res["fail"] = "test-set-mismatch"
    return res


def compare_results(a, b):
    """-> list of (test, field, va, vb) for every difference in (status, message, output)."""
    out = []
    for t in sorted(set(a) | set(b)):
        ra, rb = a.get(t), b.get(t)
        if ra is None or rb is None:
            out.append((t, "presence", ra is not None, rb is not None))
            continue
        for i, field in enumerate(("status", "message", "output")):
            if ra[i] != rb[i]:
                out.append((t, field, ra[i], rb[i]))
    return out


def sched_label(s):
    t = s.get("timings")
    return f"cpus={s.get('cpus') or 'all'} order={s.get('order_style')} backend={s['backend']} seed={s['seed']}" + \
        (f" env={s['env']}" if s.get("env") else "") + (f" timings={len(t)}" if t else "")


# ======================================================================================
# random draws: parse the captured output and check the bounds
# ======================================================================================

DRAW_RE = re.compile(r"^D (\S+) ([0-9a-fA-F_]+)$")


def parse_draws(results):
    """-> {tag: [raw int, ...]} in print order"""
    out = {}
    for name, (_, _, output) in results.items():
        for line in (output or "").split("\n"):
            m = DRAW_RE.match(line)
            if m:
                out.setdefault(m.group(1), []).append(int(m.group(2).replace("_", ""), 16))
    return out


def check_bounds(draws_meta, parsed):
    """-> (number checked, [violation dicts])"""
    n = 0
    bad = []
    for tag, vals in parsed.items():
        meta = draws_meta.get(tag)
        if not meta:
            continue
        w, s = meta["width"], meta["signed"]
        for raw in vals:
            n += 1
            if raw >> w:
                bad.append({"tag": tag, "raw": raw, "why": "value wider than the element type", "meta": meta})
                continue
            if meta["kind"] != "range":
                continue
            v = to_signed(raw, w) if s else raw
            lo, hi = min(meta["lo"], meta["hi"]), max(meta["lo"], meta["hi"])
            if not (lo <= v <= hi):
                bad.append({"tag": tag, "raw": raw, "value": v, "why": f"{v} outside requested [{meta['lo']}, {meta['hi']}]",
                            "meta": meta})
    return n, bad


# ======================================================================================

def standard_schedules(rng, suite, seed, nsched, backends):
    """The first schedule is the reference: all cpus, no timings, first backend."""
    scheds = [{"cpus": None, "order_style": "none", "timings": None, "backend": backends[0], "seed": seed}]
    cpu_opts = [None, "0", "0-1", "0-3"]
    styles = ["perm", "perm", "reverse", "partial", "none"]
    # always include the serial run with a permuted order: it shows the steering works
    scheds.append({"cpus": "0", "order_style": "perm", "timings": make_timings(rng, suite["tests"], "perm"),
                   "backend": backends[0], "seed": seed})
    # a plain repeat of the reference
    scheds.append(dict(scheds[0]))
    while len(scheds) < nsched:
        st = rng.pick(styles)
        scheds.append({"cpus": rng.pick(cpu_opts), "order_style": st, "timings": make_timings(rng, suite["tests"], st),
                       "backend": rng.pick(backends), "seed": seed})
    return scheds[:max(nsched, 3)]


def suite_sample(suite):
    return {"suite": suite["cfg"]["name"], "tests": len(suite["tests"]), "files": sorted(suite["files"]),
            "shapes": suite.get("shapes"),
            "random_draw_statements": len(suite["draws"]),
            "example_draws": dict(list(suite["draws"].items())[:4]),
            "example_test_text": suite["files"].get("src/tests_0.veryl", "")[:1800]}


def bound_class(meta):
    """Signature class of a bounds violation: one per (suspected) root cause where known."""
    if meta["cls"].startswith("gen_signed_bit"):
        return "gen_signed_bit"                     # `gen T: type = signed bit<N>` loses its signedness
    if meta["cls"].endswith("negative_bound_narrower_than_handle"):
        return "negative_bound_narrower_than_handle"
    return f"{meta['cls']}:{meta.get('form', 'get').split(':')[-1]}"


def run_suite(run, suite, scratch, rng, nsched, backends, with_cc):
    root = os.path.join(scratch, suite["cfg"]["name"])
    home = os.path.join(scratch, suite["cfg"]["name"] + "_home")
    os.makedirs(home, exist_ok=True)
    write_suite(suite, root)
    seed = rng.next() & ((1 << 63) - 1)
    scheds = standard_schedules(rng, suite, seed, nsched, backends)
    if with_cc:
        scheds.append({"cpus": rng.pick([None, "0-1"]), "order_style": "perm",
                       "timings": make_timings(rng, suite["tests"], "perm"), "backend": "cc", "seed": seed})
    ref = None
    ref_s = None
    per_backend_ref = {}
    replay = {"suite": suite, "seed": seed}
    for s in scheds:
        r = run_schedule(root, home, s, suite["tests"])
        if not r["ok"]:
            if ref is None:
                run.count("suites_rejected")
                run.note(f"suite {suite['index']}: reference run failed ({r.get('fail')}): {r['stderr_tail'][-300:]}")
                return False
            if r.get("fail") == "timeout":
                run.inconclusive(f"suite {suite['index']} timed out under {sched_label(s)}")
                continue
            run.violation(f"C32:run-failed:{r.get('fail')}",
                          f"`veryl test` gave no usable report ({r.get('fail')}, exit {r['code']}) under {sched_label(s)} "
                          f"although the reference schedule did", dict(replay, sched=s, stderr=r["stderr_tail"]))
            continue
        run.count("schedules_run")
        run.seen("schedule_configs", f"{s.get('cpus') or 'all'}|{s['order_style']}|{s['backend']}")
        run.seen("schedules_sample", sched_label(s))
        run.seen("completion_orders", hash_str(" ".join(r["order"])))
        run.seen("worker_masks", s.get("cpus") or "all")
        run.seen("backends", s["backend"])
        if s.get("cpus") == "0":
            exp = expected_dispatch(suite["tests"], s.get("timings") or {})
            if r["order"] == exp:
                run.count("serial_dispatch_orders_confirmed")
            else:
                run.count("serial_dispatch_orders_unexpected")
        if ref is None:
            ref, ref_s = r, s
            per_backend_ref[s["backend"]] = (r, s)
            n, bad = check_bounds(suite["draws"], parse_draws(r["results"]))
            run.count("random_draws_checked", n)
            run.count("tests_in_suites", len(suite["tests"]))
            sh = suite.get("shapes") or {}
            if len(sh.get("focus_tests", [])) >= 2:
                run.count("suites_with_nested_derived_clock_dut")
                run.count("tests_on_nested_derived_clock_dut", len(sh["focus_tests"]))
            sts = [v[0] for v in r["results"].values()]
            run.count("tests_failing_on_purpose_or_by_draw", sum(1 for x in sts if x == "fail"))
            run.count("tests_passing", sum(1 for x in sts if x == "pass"))
            run.count("tests_status_error", sum(1 for x in sts if x == "error"))
            for m in suite["draws"].values():
                run.seen("handle_types", f"{'i' if m['signed'] else 'u'}{m['width']}")
                if m["kind"] == "range":
                    run.seen("bound_forms", m["form"])
            seen_cls = set()
            for b in bad:
                cls = bound_class(b["meta"])
                if cls in seen_cls:
                    continue
                seen_cls.add(cls)
                run.violation(f"C32:range-bounds:{cls}",
                              f"$tb::random draw {b['tag']} ({b['meta']['type']}, width {b['meta']['width']}, "
                              f"{'signed' if b['meta']['signed'] else 'unsigned'}): {b['why']}",
                              dict(replay, sched=s, draw=b,
                                   test_text=[t for t in "\n".join(suite["files"].values()).split("#[test(")
                                              if t.startswith(b["tag"].split(".")[0] + ")")][:1]))
            continue
        same_backend = s["backend"] == ref_s["backend"]
        base, base_s = (ref, ref_s)
        if not same_backend:
            if s["backend"] in per_backend_ref:
                base, base_s = per_backend_ref[s["backend"]]
                same_backend = True
            else:
                per_backend_ref[s["backend"]] = (r, s)
        diffs = compare_results(base["results"], r["results"])
        run.count("tests_compared", len(suite["tests"]))
        run.count("schedule_pairs_compared")
        if diffs:
            t, field, va, vb = diffs[0]
            kind = "schedule-dependent" if same_backend else "backend-dependent"
            run.violation(f"C32:{kind}:{field}",
                          f"{kind}: test {t} {field} differs between [{sched_label(base_s)}] and [{sched_label(s)}]: "
                          f"{str(va)[:160]!r} vs {str(vb)[:160]!r}",
                          dict(replay, sched_a=base_s, sched_b=s, diffs=[list(map(str, d)) for d in diffs[:10]]))
    # a different seed must change the (not explicitly seeded) streams
    s2 = dict(scheds[0])
    s2["seed"] = seed ^ 0x5DEECE66D
    r2 = run_schedule(root, home, s2, suite["tests"])
    if r2["ok"] and ref is not None:
        a, b = parse_draws(ref["results"]), parse_draws(r2["results"])
        bits = 0
        differ = 0
        for tag, meta in suite["draws"].items():
            if meta["seeded"] or tag not in a:
                continue
            span = meta["width"] if meta["kind"] == "get" else max(0, (abs(meta["hi"] - meta["lo"])).bit_length())
            bits += span * min(len(a[tag]), 2)
            if a.get(tag) != b.get(tag):
                differ += 1
        run.count("seed_pairs_compared")
        n2, bad2 = check_bounds(suite["draws"], b)
        run.count("random_draws_checked", n2)
        if bits >= 64:
            if differ == 0:
                run.violation("C32:seed-insensitive",
                              f"all $tb::random streams are identical for --seed {seed} and --seed {s2['seed']}",
                              dict(replay, seed2=s2["seed"]))
            else:
                run.count("seed_changes_streams")
    if not os.environ.get("VERIF_KEEP_SCRATCH"):
        shutil.rmtree(root, ignore_errors=True)
        shutil.rmtree(home, ignore_errors=True)
    sts = {v[0] for v in ref["results"].values()}
    return {"nontrivial": {"pass", "fail"} <= sts and bool(parse_draws(ref["results"]))}


def main():
    args = Args()
    args.prop = args.prop or PROP
    run = Run(args, "exploration",
              "one case = one generated suite of 8-40 native #[test] benches (shared parameterised DUT modules, "
              "$display, $assert failing on purpose or depending on the draws, $tb::random handles of builtin and "
              "bit<N> types with get/get_range) run under several (taskset mask x test_timings order x backend) "
              "schedules at one seed; non-trivial = the reference run produced a report in which tests both pass "
              "and fail and random draws were printed; distinct by hash of the suite text")
    run.assume("`taskset -c` masks steer std::thread::available_parallelism (worker count); .build/test_timings "
               "steers the dispatch order (confirmed per run on the single-worker schedules)")
    run.assume("requested bounds of get_range(min, max) with min > max are read as [max, min] (what the code does)")
    nsuites = args.budget("suites", 4, 30)
    nsched = args.budget("schedules", 8, 12)
    max_tests = args.budget("max_tests", 24, 40)
    cc_every = args.budget("cc_every", 2, 3)          # one cc schedule in every n-th suite (cc compiles are slow)
    scratch = run.scratch()
    backends = ["cranelift", "interpret"]

    if args.replay:
        rep = json.load(open(args.replay))
        suites = [rep["case"]["suite"]]
    else:
        suites = None

    jobs = int(args.extra.get("jobs", 3 if args.thorough() else 1))

    def work(i):
        rng = Rng.for_case(args.seed, PROP, i)
        suite = gen_suite(rng, i, 8, max_tests) if suites is None else suites[i]
        rec = Recorder()
        try:
            ok = run_suite(rec, suite, scratch, rng, nsched, backends if rng.bool() else backends[::-1],
                           with_cc=(i % cc_every == 0))
        except Exception as e:  # noqa: BLE001 -- harness bug: inconclusive
            rec.inconclusive(f"suite {i}: harness error {e!r} {traceback.format_exc()[-500:]}")
            ok = None
        return suite, rec, ok

    from concurrent.futures import ThreadPoolExecutor
    with ThreadPoolExecutor(max_workers=jobs) as ex:
        for suite, rec, ok in ex.map(work, range(nsuites if suites is None else len(suites))):
            run.eval()
            run.sample(suite_sample(suite), cap=2)
            rec.merge_into(run)
            if ok:
                run.count("suites_run")
                if ok["nontrivial"]:
                    run.nontrivial(hash_str(json.dumps(suite["files"], sort_keys=True)))
    floors = [("suites_run", max(1, nsuites // 3)), ("schedules_run", nsuites * 2),
              ("tests_compared", nsuites * 30), ("random_draws_checked", nsuites * 60),
              ("schedule_configs", min(5, nsuites + 1)), ("completion_orders", min(6, nsuites + 1)),
              ("worker_masks", 2 if nsuites < 3 else 3), ("backends", 2),
              ("serial_dispatch_orders_confirmed", max(1, nsuites // 2)),
              ("tests_failing_on_purpose_or_by_draw", max(1, nsuites // 2)), ("tests_passing", nsuites),
              ("seed_changes_streams", max(1, nsuites // 4))]
    if args.replay:
        floors = [("evaluations", 1)]
    run.finish(floors)


if __name__ == "__main__":
    main()
