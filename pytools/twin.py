"""Twin-build oracle shared by C04 (incremental == clean) and C05 (recovery == clean).

Two project directories with identical sources live side by side (`<case>/inc`, `<case>/cln`; equal path
lengths so rendering widths cannot differ).  `inc` keeps `.build`; `cln` is deleted and re-materialised from
the source map before every command.  Both share one HOME (the std-library expansion in the user cache is
read-only after the first use and its absolute path appears in cache keys).

Compared after each command (see `compare`):
  * exit status (and: no panic on either side)
  * miette diagnostics parsed from stderr into records (severity, code, message, file, line, col,
    underline extents) -- as multisets; order and rendering are not compared
  * every output file the clean twin produced must exist in `inc` with the same bytes after the twin root is
    normalised; a file only `inc` has is fine when it is an untouched leftover of an earlier build, and a
    violation when this very command created or modified it
  * for `veryl test --format json`: the report without timing fields, tests sorted by name
"""
import collections
import hashlib
import json
import os
import re
import shutil

from vcommon import veryl, panicked

RE_HEAD = re.compile(r"^(Error|Warning|Advice):\s*(.*)$")
RE_MARK = re.compile(r"^\s{0,4}([×⚠☞])\s(.*)$")
RE_LOC = re.compile(r"[╭├]─\[(.+?):(\d+):(\d+)\]")
RE_SRC = re.compile(r"^\s*(\d+)\s│")
RE_UL = re.compile(r"^\s*·(.*)$")
RE_RESTORED = re.compile(r"Restored (\d+)/(\d+) files from cache")
RE_LOG = re.compile(r"^\[(INFO|WARN|ERROR|DEBUG|TRACE)\s*\]\s*(.*)$")
SEV_OF_MARK = {"×": "Error", "⚠": "Warning", "☞": "Advice"}

TIMING_FIELDS = ("runtime_s", "sim_s", "derive_s")


def norm_str(s, roots):
    for r in roots:
        s = s.replace(r, "<ROOT>")
    return s


def parse_diags(stderr, roots=()):
    """miette graphical reports -> list of records (dicts).  Log lines are skipped."""
    recs = []
    cur = None
    pending = None          # header seen, message not yet
    last_src_line = None
    in_msg = False

    def new(sev, code):
        nonlocal cur, in_msg
        cur = {"severity": sev, "code": code, "message": "", "file": None, "line": None, "col": None, "extents": []}
        recs.append(cur)
        in_msg = False

    for raw in stderr.splitlines():
        if RE_LOG.match(raw):
            continue
        m = RE_HEAD.match(raw)
        if m:
            sev, rest = m.group(1), m.group(2).strip()
            mm = re.match(r"^([×⚠☞])\s(.*)$", rest)
            if mm:
                new(sev, None)
                cur["message"] = mm.group(2).strip()
                in_msg = True
                pending = None
            else:
                code = rest.split(" (")[0].strip() if rest else None
                new(sev, code or None)
                pending = cur
            last_src_line = None
            continue
        m = RE_MARK.match(raw)
        if m:
            if pending is not None and not pending["message"]:
                cur = pending
                pending = None
            else:
                new(SEV_OF_MARK[m.group(1)], None)
            cur["message"] = m.group(2).strip()
            in_msg = True
            last_src_line = None
            continue
        if cur is None:
            continue
        m = RE_LOC.search(raw)
        if m:
            in_msg = False
            if cur["file"] is None:
                cur["file"], cur["line"], cur["col"] = m.group(1), int(m.group(2)), int(m.group(3))
            else:
                cur["extents"].append(("loc", m.group(1), int(m.group(2)), int(m.group(3))))
            continue
        if in_msg:
            s = raw.strip()
            if not s or s.startswith("help:") or s.startswith("╰"):
                in_msg = False
            else:
                if s.startswith("│"):
                    s = s[1:].strip()
                cur["message"] += " " + s
            continue
        m = RE_SRC.match(raw)
        if m:
            last_src_line = int(m.group(1))
            continue
        m = RE_UL.match(raw)
        if m:
            body = m.group(1)
            if re.fullmatch(r"[\s─┬│╭╰▶]*", body) and re.search(r"[─┬]", body):
                for run in re.finditer(r"[─┬]+", body):
                    cur["extents"].append((last_src_line, run.start(), len(run.group(0))))
            continue
    out = []
    for r in recs:
        r["message"] = norm_str(re.sub(r"\s+", " ", r["message"]).strip(), roots)
        if r["file"]:
            r["file"] = norm_str(r["file"], roots)
        r["extents"] = tuple(tuple(norm_str(x, roots) if isinstance(x, str) else x for x in e) for e in r["extents"])
        out.append(r)
    return out


def diag_key(r):
    return (r["severity"], r["code"], r["message"], r["file"], r["line"], r["col"], r["extents"])


def parse_restored(stderr):
    m = RE_RESTORED.search(stderr)
    return (int(m.group(1)), int(m.group(2))) if m else None


def log_warnings(stderr, roots=()):
    out = []
    for raw in stderr.splitlines():
        m = RE_LOG.match(raw)
        if m and m.group(1) in ("WARN", "ERROR"):
            out.append(norm_str(m.group(2).strip(), roots))
    return sorted(out)


def is_source(rel, sources):
    return rel in sources or rel in ("Veryl.toml", "Veryl.lock", "Veryl.pub") or rel.endswith(".veryl")


def collect_outputs(root, sources=()):
    """{rel: bytes} of every regular file that is not a source, not under .build."""
    out = {}
    for dp, dn, fn in os.walk(root):
        rel_dir = os.path.relpath(dp, root)
        if rel_dir == ".":
            dn[:] = [d for d in dn if d != ".build"]
        dn.sort()
        for f in sorted(fn):
            rel = os.path.normpath(os.path.join(rel_dir, f))
            if is_source(rel, sources):
                continue
            try:
                with open(os.path.join(dp, f), "rb") as fh:
                    out[rel] = fh.read()
            except OSError:
                out[rel] = b"<unreadable>"
    return out


def digest_outputs(root, sources=()):
    return {k: hashlib.sha256(v).hexdigest() for k, v in collect_outputs(root, sources).items()}


def out_class(rel):
    if rel.endswith(".sv.map"):
        return "map"
    if rel.endswith(".sv"):
        return "sv"
    if rel.endswith(".f") or rel.endswith(".list.rb"):
        return "filelist"
    return "other"


def norm_test_report(stdout, roots):
    """JSON report of `veryl test --format json` without timing fields; None when stdout has no JSON."""
    i = stdout.find("{")
    if i < 0:
        return None
    try:
        j = json.loads(stdout[i:])
    except ValueError:
        return None
    tests = []
    for t in j.get("tests", []):
        t = {k: (norm_str(v, roots) if isinstance(v, str) else v) for k, v in t.items() if k not in TIMING_FIELDS}
        tests.append(t)
    j["tests"] = sorted(tests, key=lambda t: json.dumps(t, sort_keys=True))
    return j


class StepResult:
    __slots__ = ("code", "out", "err", "diags", "restored", "panic", "outputs", "report", "logwarn", "timeout")

    def brief(self):
        return {"exit": self.code, "restored": self.restored, "panic": self.panic,
                "diags": [f"{d['severity']}:{d['code']}:{d['message'][:80]}@{d['file']}:{d['line']}:{d['col']}" for d in self.diags][:12],
                "stderr_tail": [l for l in self.err.splitlines() if "Processing file" not in l and "version_split" not in l][-12:]}


def run_step(root, home, argv, sources, timeout=600, binary=None, wrapper=None):
    """Runs one veryl command in `root` and gathers everything the oracle looks at."""
    code, out, err = veryl(argv, cwd=root, home=home, timeout=timeout, binary=binary)
    r = StepResult()
    r.code, r.out, r.err = code, out, err
    r.timeout = code is None
    roots = (root,)
    r.diags = parse_diags(err, roots)
    r.restored = parse_restored(err)
    r.panic = (not r.timeout) and panicked(err, code)
    r.outputs = collect_outputs(root, sources)
    r.report = norm_test_report(out, roots) if argv and argv[0] == "test" and "json" in argv else None
    r.logwarn = log_warnings(err, roots)
    return r


def wipe_and_materialize(root, files):
    shutil.rmtree(root, ignore_errors=True)
    os.makedirs(root)
    for p, text in files.items():
        full = os.path.join(root, p)
        os.makedirs(os.path.dirname(full), exist_ok=True)
        with open(full, "w") as f:
            f.write(text)


def compare(argv, inc, cln, inc_root, cln_root, pre_digest=None, compare_outputs=True):
    """Returns a list of mismatches: dicts {kind, detail, cls}.  Empty list = the twins agree."""
    mm = []
    cmd = argv[0]
    if inc.timeout or cln.timeout:
        return [{"kind": "timeout", "detail": f"inc={inc.timeout} cln={cln.timeout}", "cls": "harness"}]
    if inc.panic and cln.panic:
        # both twins crash alike: the incremental build adds nothing here (the crash itself is C11's matter)
        return []
    if inc.panic:
        mm.append({"kind": "panic", "detail": "incremental twin panicked: " + " | ".join(inc.err.splitlines()[-4:]), "cls": cmd})
    if cln.panic:
        mm.append({"kind": "panic_clean", "detail": "clean twin panicked: " + " | ".join(cln.err.splitlines()[-4:]), "cls": cmd})
    if inc.code != cln.code:
        mm.append({"kind": "exit_differs", "detail": f"inc exit {inc.code}, clean exit {cln.code}", "cls": f"inc={inc.code}:cln={cln.code}"})
    ci = collections.Counter(diag_key(d) for d in inc.diags)
    cc = collections.Counter(diag_key(d) for d in cln.diags)
    for k in sorted(set(ci) | set(cc), key=repr):
        a, b = ci.get(k, 0), cc.get(k, 0)
        if a == b:
            continue
        sev, code = k[0], k[1]
        kind = "diag_extra" if b == 0 else ("diag_missing" if a == 0 else ("diag_duplicated" if a > b else "diag_fewer"))
        mm.append({"kind": kind, "detail": f"inc x{a} / clean x{b}: {sev} {code} {k[2][:160]} @ {k[3]}:{k[4]}:{k[5]} extents={k[6]}",
                   "cls": f"{sev}:{code}"})
    if cmd == "test" and (inc.report is not None or cln.report is not None) and inc.report != cln.report:
        mm.append({"kind": "test_report_differs",
                   "detail": f"inc={json.dumps(inc.report, sort_keys=True)[:600]} clean={json.dumps(cln.report, sort_keys=True)[:600]}",
                   "cls": "report"})
    if compare_outputs and cmd in ("build", "test") and inc.code == 0 and cln.code == 0:
        ri, rc = inc_root.encode(), cln_root.encode()
        for rel in sorted(cln.outputs):
            if rel not in inc.outputs:
                mm.append({"kind": "output_missing", "detail": rel, "cls": out_class(rel), "rel": rel})
            else:
                a = inc.outputs[rel].replace(ri, b"<ROOT>")
                b = cln.outputs[rel].replace(rc, b"<ROOT>")
                if a != b:
                    mm.append({"kind": "output_differs", "detail": f"{rel}: inc {len(a)} bytes, clean {len(b)} bytes; first diff at {first_diff(a, b)}",
                               "cls": out_class(rel), "rel": rel,
                               "inc_head": a[:400].decode("utf-8", "replace"), "cln_head": b[:400].decode("utf-8", "replace"),
                               **({"inc_full": a.decode("utf-8", "replace"), "cln_full": b.decode("utf-8", "replace")}
                                  if out_class(rel) == "filelist" and len(a) + len(b) < 20000 else {})})
        if pre_digest is not None:
            for rel in sorted(set(inc.outputs) - set(cln.outputs)):
                h = hashlib.sha256(inc.outputs[rel]).hexdigest()
                if pre_digest.get(rel) != h:
                    mm.append({"kind": "output_extra_emitted", "detail": f"{rel} was written by this command but a clean build does not produce it",
                               "cls": out_class(rel), "rel": rel})
    return mm


def first_diff(a, b):
    n = min(len(a), len(b))
    for i in range(n):
        if a[i] != b[i]:
            return i
    return n


def seed_home(home, template_home):
    """Gives a case its own HOME with a pre-expanded std library (copied from the run's template)."""
    src = os.path.join(template_home, ".cache")
    dst = os.path.join(home, ".cache")
    if os.path.isdir(src) and not os.path.isdir(dst):
        os.makedirs(home, exist_ok=True)
        shutil.copytree(src, dst)
    else:
        os.makedirs(dst, exist_ok=True)


def make_template_home(scratch):
    """Expands the std library once (a tiny project that does not exclude std)."""
    home = os.path.join(scratch, "tmpl_home")
    proj = os.path.join(scratch, "tmpl_proj")
    os.makedirs(os.path.join(proj, "src"), exist_ok=True)
    with open(os.path.join(proj, "Veryl.toml"), "w") as f:
        f.write('[project]\nname = "tmpl"\nversion = "0.1.0"\n[build]\nsources = ["src"]\n'
                'target = {type = "directory", path = "target"}\n')
    with open(os.path.join(proj, "src", "m.veryl"), "w") as f:
        f.write("module TmplM {}\n")
    code, out, err = veryl(["build"], cwd=proj, home=home)
    shutil.rmtree(proj, ignore_errors=True)
    # the expansion lives under HOME/.cache/veryl/std/<hash>; a case HOME has a different absolute path, which is fine:
    # twins of one case share the case HOME.
    return home, code
