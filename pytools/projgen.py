"""Project and edit-history generators for the CLI-driven monitors (C04, C05, and reusable by others).

    from projgen import ProjectGen, HistoryGen, apply_edit, materialize

    rng  = Rng.for_case(seed, "C04", i)
    proj = ProjectGen(rng.fork()).generate()         # a Project (pure model, nothing on disk yet)
    proj.write(root)                                  # Veryl.toml + sources under root
    proj.files()          -> {relpath: text}          # incl. "Veryl.toml"
    proj.graph()          -> {relpath: set(relpath)}  # file reference graph (who mentions whom)
    proj.dependents(path) -> set(relpath)             # transitive reverse closure
    proj.outputs()        -> expected root-project .sv paths for target=directory

    hist  = HistoryGen(rng.fork(), proj, **weights)
    step  = hist.next_step()                          # {"edits": [edit...], "cmd": [argv...], "kinds": [...]}
    for e in step["edits"]: apply_edit(root, e)       # concrete, JSON-able, replayable
    run veryl step["cmd"] in root

Everything a step contains is *concrete* (full file texts, paths, argv), so a history can be stored in a
replay file and re-executed without the generator.  The generator keeps a model of the project (a list
of items per file); after every model edit all files are re-rendered and only files whose text changed
are written, so cross-file consequences (e.g. a test's expected value after a package constant
changed) are part of the same step.

What a generated project contains (all optional features are drawn per project):
  * packages (`const W/K`, `type word_t`, enum, function), packages derived from other packages
    (cross-file const reference), `import Pkg::*` and `Pkg::K` style references
  * combinational and clocked leaf modules, mid modules that instantiate modules from other files in a
    chain, generic modules (`Gen::<5>`: the generic's output file depends on its *users*)
  * interfaces with modports, producer/consumer modules with modport ports, a bus module wiring them
  * a `$sv::` blackbox reference, optional `$std::` reference (only when exclude_std = false)
  * `#[ifdef(DEF_A)]` bodies (defines come from `[test] defines` / `veryl test -D`)
  * `#[test(name)]` native testbench modules ($tb::clock_gen / $tb::reset_gen, `$assert`, `$finish`)
    whose expected value is computed from the model
  * an optional second `sources` directory, sub-directories, an optional `examples/` file

Every chainable module computes o_d = i_d + delta (mod 2**W), so the model can predict test results.

Edit kinds (HistoryGen): add / change / rename / delete / restore file, warning on/off (unused
variable), error on/off (undefined identifier, syntax error), Veryl.toml option / define changes,
delete or hand-edit an output, touch a source / set an older mtime, commands build / check / test /
clean (+ `--test` filter, `-D`, explicit file arguments).
"""
import copy
import json
import os
import shutil
import time

# ------------------------------------------------------------------------------------------------
# model
# ------------------------------------------------------------------------------------------------

CHAIN_KINDS = ("leaf", "reg", "mid", "bus", "genuse")
TOML_BOOL_OPTS = ("omit_project_prefix", "strip_comments", "expand_inside_operation", "emit_cond_type",
                  "hashed_mangled_name", "flatten_array_interface")


class Project:
    """Pure model of a Veryl project.  `self.vfiles` maps a relative path to a list of item dicts."""

    def __init__(self, name="prj"):
        self.name = name
        self.opts = {
            "sources": ["src"],
            "target": {"type": "directory", "path": "target"},
            "incremental": True,
            "exclude_std": True,
        }
        self.test_defines = []
        self.lint = {}
        self.vfiles = {}          # relpath -> [item, ...]
        self.counter = 0
        self.attic = {}           # relpath -> items of files deleted while still referenced (for restore)
        self.features = {"generics": True, "bundle": True}

    def clone(self):
        return copy.deepcopy(self)

    # -- names ------------------------------------------------------------------------------------
    def fresh(self, prefix):
        self.counter += 1
        return f"{prefix}{self.counter}"

    def items(self):
        for p, its in self.vfiles.items():
            for it in its:
                yield p, it

    def find(self, name):
        for p, it in self.items():
            if it["name"] == name:
                return it
        return None

    def file_of(self, name):
        for p, it in self.items():
            if it["name"] == name:
                return p
        return None

    def names(self, *kinds):
        return [it["name"] for _, it in self.items() if it["kind"] in kinds]

    # -- evaluation (what the design computes) ---------------------------------------------------
    def pkg_w(self, pkg, depth=0):
        it = self.find(pkg)
        if it is None or depth > 32:
            return None
        if it.get("base"):
            return self.pkg_w(it["base"], depth + 1)
        return it["w"]

    def pkg_k(self, pkg, depth=0):
        it = self.find(pkg)
        if it is None or depth > 32:
            return None
        if it.get("base"):
            b = self.pkg_k(it["base"], depth + 1)
            return None if b is None else b + it["kplus"]
        return it["k"]

    def delta(self, name, defines=(), depth=0):
        """Additive constant of a chainable module (None when not evaluable, e.g. a file is missing)."""
        it = self.find(name)
        if it is None or depth > 32:
            return None
        k = it["kind"]
        if k in ("leaf", "reg"):
            v = self.pkg_k(it["pkg"])
            if v is None:
                return None
            if it.get("ifdef") and "DEF_A" in defines:
                v += 1
            return v
        if k == "mid":
            tot = 0
            for st in it["stages"]:
                if st.get("garg") is not None:
                    if self.find(st["mod"]) is None:
                        return None
                    d = st["garg"]
                else:
                    d = self.delta(st["mod"], defines, depth + 1)
                if d is None:
                    return None
                tot += d
            return tot
        if k == "bus":
            a = self.find(it["prod"])
            b = self.find(it["cons"])
            if a is None or b is None or self.find(it["iface"]) is None:
                return None
            ka, kb = self.pkg_k(a["pkg"]), self.pkg_k(b["pkg"])
            if ka is None or kb is None:
                return None
            return ka + kb
        return None

    def latency(self, name, depth=0):
        it = self.find(name)
        if it is None or depth > 32:
            return 0
        if it["kind"] == "reg":
            return 1
        if it["kind"] == "mid":
            return sum(self.latency(st["mod"], depth + 1) for st in it["stages"] if st.get("garg") is None)
        return 0

    def clocked(self, name):
        return self.latency(name) > 0

    def has_defect(self, kinds=("err_undef", "err_syntax")):
        return any(it.get(k) for _, it in self.items() for k in kinds)

    # -- rendering --------------------------------------------------------------------------------
    def render_toml(self):
        o = self.opts
        L = ["[project]", f'name = "{self.name}"', 'version = "0.1.0"', "", "[build]"]
        L.append("sources = [" + ", ".join(f'"{s}"' for s in o["sources"]) + "]")
        t = o["target"]
        if t["type"] == "source":
            L.append('target = {type = "source"}')
        else:
            L.append(f'target = {{type = "{t["type"]}", path = "{t["path"]}"}}')
        for k in sorted(o):
            if k in ("sources", "target"):
                continue
            v = o[k]
            if isinstance(v, bool):
                L.append(f"{k} = {'true' if v else 'false'}")
            elif isinstance(v, dict):
                inner = ", ".join(f'{a} = "{b}"' for a, b in v.items())
                L.append(f"{k} = {{{inner}}}")
            elif isinstance(v, int):
                L.append(f"{k} = {v}")
            else:
                L.append(f'{k} = "{v}"')
        if self.lint:
            L += ["", "[lint.naming]"]
            for k in sorted(self.lint):
                L.append(f'{k} = "{self.lint[k]}"')
        if self.test_defines:
            L += ["", "[test]", "defines = [" + ", ".join(f'"{d}"' for d in self.test_defines) + "]"]
        return "\n".join(L) + "\n"

    def render_item(self, it):
        return _RENDER[it["kind"]](self, it)

    def render_file(self, path):
        return "\n".join(self.render_item(it) for it in self.vfiles[path])

    def files(self):
        out = {"Veryl.toml": self.render_toml()}
        for p in self.vfiles:
            out[p] = self.render_file(p)
        return out

    def write(self, root):
        for p, text in self.files().items():
            full = os.path.join(root, p)
            os.makedirs(os.path.dirname(full), exist_ok=True)
            with open(full, "w") as f:
                f.write(text)

    # -- reference graph --------------------------------------------------------------------------
    def item_refs(self, it):
        k = it["kind"]
        r = set()
        for key in ("pkg", "base", "iface", "prod", "cons", "dut", "gen"):
            if it.get(key):
                r.add(it[key])
        if k == "mid":
            r.update(st["mod"] for st in it["stages"])
        return r

    def graph(self):
        """{file: set(files it mentions)} over files currently in the project."""
        where = {it["name"]: p for p, it in self.items()}
        g = {}
        for p, its in self.vfiles.items():
            s = set()
            for it in its:
                for n in self.item_refs(it):
                    q = where.get(n)
                    if q and q != p:
                        s.add(q)
            g[p] = s
        return g

    def dangling(self):
        """Names referenced but not defined anywhere (the project is expected not to build)."""
        have = {it["name"] for _, it in self.items()}
        return sorted({n for _, it in self.items() for n in self.item_refs(it)} - have)

    def dependents(self, path):
        g = self.graph()
        rev = {}
        for a, bs in g.items():
            for b in bs:
                rev.setdefault(b, set()).add(a)
        seen, todo = set(), [path]
        while todo:
            x = todo.pop()
            for y in rev.get(x, ()):
                if y not in seen:
                    seen.add(y)
                    todo.append(y)
        return seen

    def shape(self):
        """Canonical description of the dependency shape (for distinctness counting)."""
        g = self.graph()
        depth = {}

        def d(p, stack=()):
            if p in depth:
                return depth[p]
            if p in stack:
                return 0
            v = 1 + max([d(q, stack + (p,)) for q in g[p]], default=0)
            depth[p] = v
            return v
        kinds = sorted("+".join(it["kind"] for it in its) for its in self.vfiles.values())
        return json.dumps([sorted((d(p), len(g[p])) for p in g), kinds])

    def source_dir_of(self, path):
        best = ""
        for s in self.opts["sources"]:
            if path.startswith(s + "/") and len(s) > len(best):
                best = s
        return best

    def outputs(self):
        """Expected .sv outputs (relative) of root-project sources for a directory target."""
        t = self.opts["target"]
        out = []
        for p in self.vfiles:
            if p.startswith("examples/"):
                continue
            sd = self.source_dir_of(p)
            rel = p[len(sd) + 1:] if sd else p
            rel = rel[:-len(".veryl")] + ".sv"
            if t["type"] == "directory":
                out.append(os.path.join(t["path"], rel))
            elif t["type"] == "source":
                out.append(p[:-len(".veryl")] + ".sv")
        return sorted(out)


# -- item renderers --------------------------------------------------------------------------------

def _defect_decl(it):
    s = ""
    if it.get("warn"):
        s += f"    var unused_{it['name'].lower()}: logic;\n"
    if it.get("warn2"):
        s += f"    var unassigned_{it['name'].lower()}: logic;\n    let _sink_{it['name'].lower()}: logic = unassigned_{it['name'].lower()};\n"
    return s


def _defect_expr(it):
    s = ""
    if it.get("err_undef"):
        s += f" + undefined_{it['name'].lower()}"
    if it.get("err_syntax"):
        s += " + = 1"
    return s


def _comment(it):
    c = it.get("comment", 0)
    return f"    // rev {c}\n" if c else ""


def r_pkg(P, it):
    L = [f"package {it['name']} {{"]
    if it.get("base"):
        L.append(f"    const W: u32 = {it['base']}::W;")
        L.append(f"    const K: u32 = {it['base']}::K + {it['kplus']};")
    else:
        L.append(f"    const W: u32 = {it['w']};")
        L.append(f"    const K: u32 = {it['k']};")
    L.append("    type word_t = logic<W>;")
    if it.get("enum"):
        L.append("    enum Mode {\n        IDLE,\n        RUN,\n    }")
    if it.get("fn"):
        L.append("    function bump (\n        x: input word_t,\n    ) -> word_t {\n        return x + K;\n    }")
    if it.get("comment"):
        L.append(_comment(it).rstrip("\n"))
    L.append("}\n")
    return "\n".join(L)


def _ports(it, clocked):
    L = []
    if clocked:
        L += ["    i_clk: input  clock,", "    i_rst: input  reset,"]
    o = "o_q" if it.get("port_alt") else "o_d"      # port_alt: an interface change the *users* are not told about
    L += [f"    i_d  : input  {it['pkg']}::word_t,", f"    {o}  : output {it['pkg']}::word_t,"]
    return "\n".join(L)


def r_leaf(P, it):
    pkg = it["pkg"]
    style = it.get("style", "assign")
    body = _comment(it) + _defect_decl(it)
    ex = _defect_expr(it)
    if style == "import":
        body += f"    import {pkg}::*;\n"
        rhs = f"i_d + K{ex}"
    elif style == "fn":
        rhs = f"{pkg}::bump(i_d){ex}"
    else:
        rhs = f"i_d + {pkg}::K{ex}"
    o = "o_q" if it.get("port_alt") else "o_d"
    if it.get("ifdef"):
        body += f"    #[ifdef(DEF_A)]\n    assign {o} = {rhs} + 1;\n    #[ifndef(DEF_A)]\n    assign {o} = {rhs};\n"
    elif style == "comb":
        body += f"    always_comb {{\n        {o} = {rhs};\n    }}\n"
    else:
        body += f"    assign {o} = {rhs};\n"
    return f"module {it['name']} (\n{_ports(it, False)}\n) {{\n{body}}}\n"


def r_reg(P, it):
    pkg = it["pkg"]
    body = _comment(it) + _defect_decl(it)
    body += ("    always_ff {\n        if_reset {\n            o_d = 0;\n        } else {\n"
             f"            o_d = i_d + {pkg}::K{_defect_expr(it)};\n        }}\n    }}\n")
    return f"module {it['name']} (\n{_ports(it, True)}\n) {{\n{body}}}\n"


def r_gen(P, it):
    body = _comment(it) + _defect_decl(it) + f"    assign o_d = i_d + N{_defect_expr(it)};\n"
    return f"module {it['name']}::<N: u32> (\n{_ports(it, False)}\n) {{\n{body}}}\n"


def r_mid(P, it):
    clocked = P.clocked(it["name"])
    body = _comment(it) + _defect_decl(it)
    n = len(it["stages"])
    for i in range(n - 1):
        body += f"    var t{i}: {it['pkg']}::word_t;\n"
    for i, st in enumerate(it["stages"]):
        src = "i_d" if i == 0 else f"t{i - 1}"
        dst = "o_d" if i == n - 1 else f"t{i}"
        mod = st["mod"]
        if st.get("garg") is not None:
            mod = f"{mod}::<{st['garg']}>"
        conns = []
        if st.get("garg") is None and P.clocked(st["mod"]):
            conns += ["i_clk", "i_rst"]
        if i == 0 and it.get("short"):
            conns += ["i_d", f"o_d: {dst}"] if src == "i_d" else [f"i_d: {src}", f"o_d: {dst}"]
        else:
            conns += [f"i_d: {src}", f"o_d: {dst}"]
        iname = st.get("iname") or f"u{i}"
        body += f"    inst {iname}: {mod} (\n" + "".join(f"        {c},\n" for c in conns) + "    );\n"
    if it.get("err_undef"):
        body += f"    let _e: logic = undefined_{it['name'].lower()};\n"
    if it.get("err_syntax"):
        body += "    assign = ;\n"
    return f"module {it['name']} (\n{_ports(it, clocked)}\n) {{\n{body}}}\n"


def r_iface(P, it):
    return (f"interface {it['name']} {{\n{_comment(it)}    var data : {it['pkg']}::word_t;\n    var valid: logic;\n"
            "    modport src {\n        data : output,\n        valid: output,\n    }\n"
            "    modport dst {\n        data : input,\n        valid: input,\n    }\n}\n")


def r_prod(P, it):
    body = _comment(it) + _defect_decl(it)
    body += f"    assign o.data  = i_d + {it['pkg']}::K{_defect_expr(it)};\n    assign o.valid = 1'b1;\n"
    return (f"module {it['name']} (\n    o  : modport {it['iface']}::src,\n"
            f"    i_d: input {it['pkg']}::word_t,\n) {{\n{body}}}\n")


def r_cons(P, it):
    body = _comment(it) + _defect_decl(it)
    body += (f"    assign o_d = if i.valid ? i.data + {it['pkg']}::K{_defect_expr(it)} : 0;\n")
    return (f"module {it['name']} (\n    i  : modport {it['iface']}::dst,\n"
            f"    o_d: output {it['pkg']}::word_t,\n) {{\n{body}}}\n")


def r_bus(P, it):
    body = _comment(it) + _defect_decl(it)
    body += (f"    inst bus: {it['iface']};\n"
             f"    inst u_p: {it['prod']} (\n        o  : bus,\n        i_d: i_d,\n    );\n"
             f"    inst u_c: {it['cons']} (\n        i  : bus,\n        o_d: o_d,\n    );\n")
    if it.get("err_undef"):
        body += f"    let _e: logic = undefined_{it['name'].lower()};\n"
    if it.get("err_syntax"):
        body += "    assign = ;\n"
    return f"module {it['name']} (\n{_ports(it, False)}\n) {{\n{body}}}\n"


def r_svwrap(P, it):
    body = _comment(it) + _defect_decl(it)
    body += (f"    inst u_ext: $sv::{it['ext']} (\n        i_d: i_d,\n        o_d: o_d,\n    );\n"
             f"    const _P: u32 = $sv::{it['ext']}_pkg::PARAM{_defect_expr(it)};\n")
    return f"module {it['name']} (\n{_ports(it, False)}\n) {{\n{body}}}\n"


def r_stdwrap(P, it):
    body = _comment(it) + _defect_decl(it)
    body += (f"    inst u_g: $std::gray_encoder #(\n        WIDTH: {it['pkg']}::W,\n    ) (\n"
             f"        i_bin : i_d{_defect_expr(it)},\n        o_gray: o_d,\n    );\n")
    return f"module {it['name']} (\n{_ports(it, False)}\n) {{\n{body}}}\n"


def r_test(P, it):
    dut = it["dut"]
    d = P.find(dut)
    pkg = d["pkg"] if d else it.get("pkg_fallback", "PkgMissing")
    w = (P.pkg_w(pkg) or 8)
    delta = P.delta(dut, P.test_defines)
    lat = P.latency(dut)
    exp = ((it["d_in"] + (delta or 0)) % (1 << w)) if not it.get("wrong") else ((it["d_in"] + (delta or 0) + 1) % (1 << w))
    conns = []
    if d and P.clocked(dut):
        conns += ["i_clk: clk", "i_rst: rst"]
    conns += ["i_d: d", "o_d: q"]
    body = _comment(it)
    body += ("    inst clk: $tb::clock_gen;\n    inst rst: $tb::reset_gen (\n        clk,\n    );\n"
             f"    var d: {pkg}::word_t;\n    var q: {pkg}::word_t;\n"
             f"    inst dut: {dut} (\n" + "".join(f"        {c},\n" for c in conns) + "    );\n"
             "    initial {\n"
             f"        d = {it['d_in'] % (1 << w)};\n        rst.assert();\n        clk.next({lat + 2});\n"
             f"        $assert(q == {exp});\n"
             + (f"        $display(\"{it['name']} q=%d\", q);\n" if it.get("display") else "")
             + "        $finish();\n    }\n")
    attr = f"#[test({it['name']})]\n" + ("#[ignore]\n" if it.get("ignore") else "")
    return f"{attr}module {it['name']} {{\n{body}}}\n"


def r_example(P, it):
    d = P.find(it["dut"])
    pkg = d["pkg"] if d else "PkgMissing"
    conns = []
    if d and P.clocked(it["dut"]):
        conns += ["i_clk", "i_rst"]
    conns += ["i_d", "o_d"]
    return (f"module {it['name']} (\n{_ports({'pkg': pkg}, bool(d and P.clocked(it['dut'])))}\n) {{\n{_comment(it)}"
            f"    inst u_dut: {it['dut']} (\n" + "".join(f"        {c},\n" for c in conns) + "    );\n}\n")


_RENDER = {"pkg": r_pkg, "leaf": r_leaf, "reg": r_reg, "gen": r_gen, "mid": r_mid, "iface": r_iface, "prod": r_prod,
           "cons": r_cons, "bus": r_bus, "svwrap": r_svwrap, "stdwrap": r_stdwrap, "test": r_test, "example": r_example}


# ------------------------------------------------------------------------------------------------
# ProjectGen
# ------------------------------------------------------------------------------------------------

class ProjectGen:
    """Draws a random multi-file project.

    Parameters (all optional): n_extra (how many extra modules beyond the fixed core), p_std (chance that
    the standard library is included), p_second_src, p_examples, name, generics (False = no generic modules;
    useful to steer around a known defect while exploring for others).
    """

    def __init__(self, rng, name="prj", n_extra=None, p_std=(1, 6), p_second_src=(1, 3), p_examples=(1, 4),
                 allow_source_target=True, generics=True):
        self.generics = generics
        self.rng = rng
        self.name = name
        self.n_extra = n_extra
        self.p_std = p_std
        self.p_second_src = p_second_src
        self.p_examples = p_examples
        self.allow_source_target = allow_source_target

    # path for a new item
    @staticmethod
    def new_path(rng, P, name):
        sd = rng.pick(P.opts["sources"])
        sub = rng.pick(["", "", "", "sub/", "ip/core/"])
        return f"{sd}/{sub}{name.lower()}.veryl"

    def generate(self):
        r = self.rng
        P = Project(self.name)
        P.features["generics"] = self.generics
        if r.chance(*self.p_second_src):
            P.opts["sources"] = ["src", "lib"]
        if not r.chance(*self.p_std):
            P.opts["exclude_std"] = True
        else:
            P.opts["exclude_std"] = False
        if r.chance(1, 4):
            P.opts["sourcemap_target"] = r.pick([{"type": "none"}, {"type": "directory", "path": "maps"}])
        if r.chance(1, 4):
            P.opts["filelist_type"] = r.pick(["relative", "flgen", "absolute"])
        if r.chance(1, 6):
            P.opts[r.pick(TOML_BOOL_OPTS)] = True
        if r.chance(1, 5):
            P.test_defines = ["DEF_A"]
        if r.chance(1, 8):
            P.lint["prefix_instance"] = "u"

        # core: base package, derived packages
        base = add_item(P, r, {"kind": "pkg", "name": P.fresh("Pkg"), "w": r.pick([4, 8, 8, 12, 16]), "k": r.range(1, 7),
                               "fn": True, "enum": r.bool()})
        for _ in range(r.range(1, 3)):
            b = r.pick(P.names("pkg"))
            add_item(P, r, {"kind": "pkg", "name": P.fresh("Pkg"), "base": b, "kplus": r.range(0, 5), "fn": r.bool(),
                            "enum": False})
        # leaves
        for _ in range(r.range(2, 4)):
            add_random(P, r, "leaf")
        if r.chance(2, 3):
            add_random(P, r, "reg")
        if r.chance(2, 3):
            add_random(P, r, "gen")
        for _ in range(r.range(1, 3)):
            add_random(P, r, "mid")
        if r.chance(2, 3):
            add_random(P, r, "bus")
        if r.chance(1, 2):
            add_random(P, r, "svwrap")
        if not P.opts["exclude_std"]:
            add_random(P, r, "stdwrap")
        n_extra = self.n_extra if self.n_extra is not None else r.range(0, 4)
        for _ in range(n_extra):
            add_random(P, r, r.pick(["leaf", "mid", "mid", "pkg", "reg"]))
        for _ in range(r.range(1, 3)):
            add_random(P, r, "test")
        if r.chance(*self.p_examples):
            add_random(P, r, "example")
        return P


def add_item(P, r, it, path=None, same_file_as=None):
    if same_file_as and same_file_as in P.vfiles:
        P.vfiles[same_file_as].append(it)
        return it
    if path is None:
        if it["kind"] == "example":
            path = f"examples/{it['name'].lower()}.veryl"
        else:
            path = ProjectGen.new_path(r, P, it["name"])
    P.vfiles.setdefault(path, []).append(it)
    return it


def add_random(P, r, kind):
    """Adds one random item of `kind` (plus what it needs) and returns the list of paths created."""
    before = set(P.vfiles)
    if kind == "gen" and not P.features.get("generics", True):
        kind = "leaf"
    pkgs = P.names("pkg")
    if not pkgs:
        add_item(P, r, {"kind": "pkg", "name": P.fresh("Pkg"), "w": 8, "k": r.range(1, 7), "fn": True, "enum": False})
        pkgs = P.names("pkg")
    pkg = r.pick(pkgs)
    if kind == "pkg":
        add_item(P, r, {"kind": "pkg", "name": P.fresh("Pkg"), "base": pkg, "kplus": r.range(0, 5), "fn": r.bool(),
                        "enum": r.chance(1, 4)})
    elif kind == "leaf":
        pit = P.find(pkg)
        styles = ["assign", "comb", "import"] + (["fn"] if pit.get("fn") else [])
        add_item(P, r, {"kind": "leaf", "name": P.fresh("Leaf"), "pkg": pkg, "style": r.pick(styles),
                        "ifdef": r.chance(1, 6)})
    elif kind == "reg":
        add_item(P, r, {"kind": "reg", "name": P.fresh("Reg"), "pkg": pkg})
    elif kind == "gen":
        add_item(P, r, {"kind": "gen", "name": P.fresh("Gen"), "pkg": pkg})
    elif kind == "mid":
        cands = P.names("leaf", "reg", "mid", "bus")
        gens = P.names("gen")
        if not cands:
            add_random(P, r, "leaf")
            cands = P.names("leaf")
        stages = []
        for i in range(r.range(1, 3)):
            if gens and r.chance(1, 3):
                stages.append({"mod": r.pick(gens), "garg": r.range(1, 6)})
            else:
                stages.append({"mod": r.pick(cands)})
            if r.chance(1, 3):
                stages[-1]["iname"] = r.pick(["u_s", "stage", "u_x"]) + str(i)
        add_item(P, r, {"kind": "mid", "name": P.fresh("Mid"), "pkg": pkg, "stages": stages, "short": r.chance(1, 3)})
    elif kind == "bus":
        ifs = P.names("iface")
        if not ifs or r.chance(1, 3):
            add_item(P, r, {"kind": "iface", "name": P.fresh("If"), "pkg": pkg})
            ifs = P.names("iface")
        ifn = r.pick(ifs)
        pr = add_item(P, r, {"kind": "prod", "name": P.fresh("Prod"), "pkg": pkg, "iface": ifn})
        same = P.file_of(pr["name"]) if r.chance(1, 3) else None
        co = add_item(P, r, {"kind": "cons", "name": P.fresh("Cons"), "pkg": r.pick(pkgs), "iface": ifn}, same_file_as=same)
        add_item(P, r, {"kind": "bus", "name": P.fresh("Bus"), "pkg": pkg, "iface": ifn, "prod": pr["name"],
                        "cons": co["name"]})
    elif kind == "svwrap":
        add_item(P, r, {"kind": "svwrap", "name": P.fresh("SvWrap"), "pkg": pkg, "ext": r.pick(["ext_ip", "vendor_cell"])})
    elif kind == "stdwrap":
        add_item(P, r, {"kind": "stdwrap", "name": P.fresh("StdWrap"), "pkg": pkg})
    elif kind == "test":
        duts = P.names("leaf", "reg", "mid", "bus")
        if not duts:
            add_random(P, r, "leaf")
            duts = P.names("leaf")
        dut = r.pick(duts)
        same = P.file_of(dut) if r.chance(1, 3) else None
        add_item(P, r, {"kind": "test", "name": P.fresh("test_t"), "dut": dut, "d_in": r.range(0, 9), "display": r.bool(),
                        "ignore": r.chance(1, 10), "wrong": r.chance(1, 12),
                        "pkg_fallback": P.find(dut)["pkg"]}, same_file_as=same)
    elif kind == "example":
        duts = P.names("leaf", "mid", "bus")
        if duts:
            add_item(P, r, {"kind": "example", "name": P.fresh("Ex"), "dut": r.pick(duts)})
    return sorted(set(P.vfiles) - before)


# ------------------------------------------------------------------------------------------------
# concrete edits (JSON-able; what replay files store)
# ------------------------------------------------------------------------------------------------

OLD_MTIME_DELTA = -3600.0


def apply_edit(root, e, now=None):
    """Applies one concrete edit below `root`.  Unknown / inapplicable edits are no-ops (returns False)."""
    op = e["op"]
    if op == "write":
        full = os.path.join(root, e["path"])
        os.makedirs(os.path.dirname(full), exist_ok=True)
        with open(full, "w") as f:
            f.write(e["text"])
        return True
    if op == "delete":
        try:
            os.remove(os.path.join(root, e["path"]))
            return True
        except FileNotFoundError:
            return False
    if op == "rename":
        src, dst = os.path.join(root, e["from"]), os.path.join(root, e["to"])
        if not os.path.exists(src):
            return False
        os.makedirs(os.path.dirname(dst), exist_ok=True)
        os.rename(src, dst)           # keeps mtime, like `git mv` / `mv`
        return True
    if op == "touch":
        full = os.path.join(root, e["path"])
        if not os.path.exists(full):
            return False
        t = (now or time.time()) + e.get("delta", 0.0)
        os.utime(full, (t, t))
        return True
    if op == "rm_output":
        full = os.path.join(root, e["path"])
        if os.path.isfile(full):
            os.remove(full)
            return True
        return False
    if op == "edit_output":
        full = os.path.join(root, e["path"])
        if not os.path.isfile(full):
            return False
        data = open(full, "rb").read()
        how = e.get("how", "append")
        if how == "append":
            data += b"// hand edit\n"
        elif how == "truncate":
            data = data[:len(data) // 2]
        else:
            data = b""
        st = os.stat(full)
        with open(full, "wb") as f:
            f.write(data)
        if e.get("keep_mtime"):
            os.utime(full, (st.st_atime, st.st_mtime))
        return True
    if op == "rm_dir":
        full = os.path.join(root, e["path"])
        if os.path.isdir(full):
            shutil.rmtree(full, ignore_errors=True)
            return True
        return False
    raise ValueError(f"unknown edit op {op}")


def apply_edit_to_map(files, e):
    """Source-level effect of an edit on a {relpath: text} map (used to materialise the clean twin)."""
    op = e["op"]
    if op == "write":
        files[e["path"]] = e["text"]
    elif op == "delete":
        files.pop(e["path"], None)
    elif op == "rename":
        if e["from"] in files:
            files[e["to"]] = files.pop(e["from"])


def materialize(root, files):
    """Writes a {relpath: text} map into an empty/new directory."""
    for p, text in files.items():
        full = os.path.join(root, p)
        os.makedirs(os.path.dirname(full), exist_ok=True)
        with open(full, "w") as f:
            f.write(text)


# ------------------------------------------------------------------------------------------------
# HistoryGen
# ------------------------------------------------------------------------------------------------

DEFAULT_WEIGHTS = {
    "change": 22, "comment": 6, "add": 10, "rename": 7, "delete_leafmost": 4, "delete_referenced": 4, "restore": 8,
    "warn_on": 8, "warn_off": 6, "err_on": 8, "err_off": 14, "toml": 7, "define": 3, "rm_output": 6, "rm_map": 0,
    "edit_output": 0, "touch": 5, "old_mtime": 4, "noop": 8, "rm_filelist": 1,
}
DEFAULT_CMDS = {"build": 50, "check": 22, "test": 18, "clean": 3, "build_file": 3, "check_file": 2, "test_filter": 6}


class HistoryGen:
    """Random edit/command histories over a Project model.

    next_step() mutates the model with 1..max_edits edit kinds, re-renders everything, and returns
    {"edits": [concrete edits], "cmd": [veryl argv], "kinds": [edit kind names], "expect_ok": bool}.
    `weights` / `cmds` override DEFAULT_WEIGHTS / DEFAULT_CMDS entries (0 disables a kind).
    `test_backend` is passed to `veryl test --backend` (interpret keeps test steps cheap and deterministic).
    """

    def __init__(self, rng, project, weights=None, cmds=None, max_edits=2, test_backend="interpret"):
        self.rng = rng
        self.P = project
        self.w = dict(DEFAULT_WEIGHTS)
        self.w.update(weights or {})
        self.c = dict(DEFAULT_CMDS)
        self.c.update(cmds or {})
        self.max_edits = max_edits
        self.test_backend = test_backend
        self.disk = dict(project.files())     # what the generator believes is on disk (sources + toml)
        self.extra_edits = []

    # -- helpers ----------------------------------------------------------------------------------
    def _weighted(self, table):
        tot = sum(v for v in table.values() if v > 0)
        x = self.rng.below(tot)
        for k in sorted(table):
            v = table[k]
            if v <= 0:
                continue
            if x < v:
                return k
            x -= v
        return sorted(table)[0]

    def _sync(self):
        """Concrete write/delete edits that bring the disk to the model's current rendering."""
        want = self.P.files()
        edits = []
        for p in sorted(set(self.disk) - set(want)):
            edits.append({"op": "delete", "path": p})
            del self.disk[p]
        for p in sorted(want):
            if self.disk.get(p) != want[p]:
                edits.append({"op": "write", "path": p, "text": want[p]})
                self.disk[p] = want[p]
        return edits

    def _modules(self):
        return [it for _, it in self.P.items() if it["kind"] in ("leaf", "reg", "gen", "mid", "bus", "prod", "cons", "svwrap",
                                                                "stdwrap")]

    # -- one model edit ----------------------------------------------------------------------------
    def _edit(self, kind):
        r, P = self.rng, self.P
        if kind == "noop":
            return True
        if kind == "comment":
            its = [it for _, it in P.items()]
            it = r.pick(its)
            it["comment"] = it.get("comment", 0) + 1
            return True
        if kind == "change":
            its = [it for _, it in P.items()]
            it = r.pick(its)
            k = it["kind"]
            if k == "pkg":
                if it.get("base"):
                    if r.chance(1, 4):
                        others = [n for n in P.names("pkg") if n != it["name"] and not _pkg_reaches(P, n, it["name"])]
                        if others:
                            it["base"] = r.pick(others)
                    else:
                        it["kplus"] = (it["kplus"] + r.range(1, 3)) % 9
                else:
                    if r.chance(1, 4):
                        it["w"] = r.pick([w for w in (4, 8, 12, 16) if w != it["w"]])
                    else:
                        it["k"] = it["k"] % 9 + 1
                if r.chance(1, 5):
                    it["enum"] = not it.get("enum")
            elif k == "leaf":
                pit = P.find(it["pkg"])
                ch = r.below(4)
                if ch == 0:
                    styles = ["assign", "comb", "import"] + (["fn"] if pit and pit.get("fn") else [])
                    it["style"] = r.pick([s for s in styles if s != it.get("style")] or styles)
                elif ch == 1:
                    it["pkg"] = r.pick(P.names("pkg") or [it["pkg"]])
                    if it.get("style") == "fn":
                        it["style"] = "assign"
                elif ch == 2:
                    it["ifdef"] = not it.get("ifdef")
                else:
                    it["comment"] = it.get("comment", 0) + 1
            elif k == "mid":
                ch = r.below(4)
                cands = [n for n in P.names("leaf", "reg", "mid", "bus") if n != it["name"] and not _mod_reaches(P, n, it["name"])]
                gens = P.names("gen")
                if ch == 0 and cands:
                    st = r.pick(it["stages"])
                    st["mod"] = r.pick(cands)
                    st.pop("garg", None)
                elif ch == 1 and len(it["stages"]) < 4 and (cands or gens):
                    if gens and r.bool():
                        it["stages"].append({"mod": r.pick(gens), "garg": r.range(1, 6)})
                    else:
                        it["stages"].append({"mod": r.pick(cands)})
                elif ch == 2 and len(it["stages"]) > 1:
                    it["stages"].pop(r.below(len(it["stages"])))
                else:
                    gs = [st for st in it["stages"] if st.get("garg") is not None]
                    if gs:
                        r.pick(gs)["garg"] = r.range(1, 9)
                    else:
                        it["short"] = not it.get("short")
            elif k == "test":
                ch = r.below(4)
                if ch == 0:
                    it["d_in"] = (it["d_in"] + 1) % 10
                elif ch == 1:
                    duts = P.names("leaf", "reg", "mid", "bus")
                    if duts:
                        it["dut"] = r.pick(duts)
                        it["pkg_fallback"] = P.find(it["dut"])["pkg"]
                elif ch == 2:
                    it["wrong"] = not it.get("wrong")
                else:
                    it["ignore"] = not it.get("ignore")
            elif k in ("prod", "cons", "reg", "gen", "bus", "svwrap", "stdwrap", "iface", "example"):
                if r.bool() and P.names("pkg") and k != "example":
                    it["pkg"] = r.pick(P.names("pkg"))
                else:
                    it["comment"] = it.get("comment", 0) + 1
            return True
        if kind == "add":
            k = r.pick(["leaf", "leaf", "mid", "mid", "pkg", "reg", "test", "gen", "bus", "svwrap", "example"])
            if k == "example" and os.path.join("examples") and any(p.startswith("examples/") for p in P.vfiles) and r.bool():
                k = "mid"
            add_random(P, r, k)
            return True
        if kind == "rename":
            paths = sorted(P.vfiles)
            if not paths:
                return False
            p = r.pick(paths)
            base = os.path.basename(p)
            if p.startswith("examples/"):
                q = "examples/" + r.pick(["", "more/"]) + "r" + base
            else:
                sd = r.pick(P.opts["sources"])
                q = f"{sd}/" + r.pick(["", "moved/", "sub/"]) + r.pick(["", "", "r_"]) + base
            if q in P.vfiles or q == p:
                return False
            if os.path.basename(q) in {os.path.basename(x) for x in P.vfiles if x != p}:
                return False
            P.vfiles[q] = P.vfiles.pop(p)
            self.extra_edits.append({"op": "rename", "from": p, "to": q})
            if p in self.disk:
                self.disk[q] = self.disk.pop(p)
            return True
        if kind == "delete_leafmost":
            g = P.graph()
            referenced = set().union(*g.values()) if g else set()
            cands = sorted(p for p in P.vfiles if p not in referenced)
            if len(P.vfiles) <= 3 or not cands:
                return False
            del P.vfiles[r.pick(cands)]
            return True
        if kind == "delete_referenced":
            g = P.graph()
            referenced = sorted(set().union(*g.values())) if g else []
            if not referenced or len(P.attic) >= 2:
                return False
            p = r.pick(referenced)
            P.attic[p] = P.vfiles.pop(p)
            return True
        if kind == "restore":
            if not P.attic:
                return False
            p = r.pick(sorted(P.attic))
            its = P.attic.pop(p)
            q = p if r.chance(2, 3) or p in P.vfiles else p
            if r.chance(1, 3) and not p.startswith("examples/"):
                q = os.path.join(os.path.dirname(p), "back_" + os.path.basename(p))
            if q in P.vfiles:
                q = p
            P.vfiles.setdefault(q, []).extend(its)
            return True
        if kind in ("warn_on", "warn_off", "err_on", "err_off"):
            mods = self._modules()
            if not mods:
                return False
            if kind == "warn_on":
                it = r.pick(mods)
                it[r.pick(["warn", "warn", "warn2"])] = True
                return True
            if kind == "warn_off":
                have = [it for it in mods if it.get("warn") or it.get("warn2")]
                if not have:
                    return False
                it = r.pick(have)
                it.pop("warn", None)
                it.pop("warn2", None)
                return True
            if kind == "err_on":
                if sum(1 for it in mods if it.get("err_undef") or it.get("err_syntax")) >= 2:
                    return False
                it = r.pick(mods)
                it[r.pick(["err_undef", "err_undef", "err_syntax"])] = True
                return True
            have = [it for it in mods if it.get("err_undef") or it.get("err_syntax")]
            if not have:
                return False
            for it in have if r.bool() else [r.pick(have)]:
                it.pop("err_undef", None)
                it.pop("err_syntax", None)
            return True
        if kind == "toml":
            o = P.opts
            ch = r.below(10)
            if ch <= 2:
                k = r.pick(TOML_BOOL_OPTS)
                if o.get(k):
                    del o[k]
                else:
                    o[k] = True
            elif ch == 3:
                cur = o.get("sourcemap_target", {"type": "target"})["type"]
                nxt = r.pick([t for t in ("target", "none", "directory") if t != cur])
                if nxt == "target":
                    o.pop("sourcemap_target", None)
                elif nxt == "none":
                    o["sourcemap_target"] = {"type": "none"}
                else:
                    o["sourcemap_target"] = {"type": "directory", "path": "maps"}
            elif ch == 4:
                cur = o.get("filelist_type", "absolute")
                o["filelist_type"] = r.pick([t for t in ("absolute", "relative", "flgen") if t != cur])
            elif ch == 5:
                t = o["target"]
                if t["type"] == "directory":
                    nxt = r.pick(["dirpath", "bundle", "source"])
                    if nxt == "bundle" and not P.features.get("bundle", True):
                        nxt = "dirpath"
                    if nxt == "dirpath":
                        t["path"] = "out" if t["path"] == "target" else "target"
                    elif nxt == "bundle":
                        o["target"] = {"type": "bundle", "path": "target/all.sv"}
                    else:
                        o["target"] = {"type": "source"}
                else:
                    o["target"] = {"type": "directory", "path": "target"}
            elif ch == 6:
                k, vals = r.pick([("clock_type", ["posedge", "negedge"]),
                                  ("reset_type", ["async_low", "async_high", "sync_low", "sync_high"])])
                cur = o.get(k, vals[0])
                o[k] = r.pick([v for v in vals if v != cur])
            elif ch == 7:
                if self.w.get("warn_on", 1) == 0:
                    return False
                if P.lint:
                    P.lint.clear()
                else:
                    P.lint["prefix_instance"] = "u"
            elif ch == 8:
                if o.get("error_count_limit"):
                    del o["error_count_limit"]
                else:
                    o["error_count_limit"] = 1
            else:
                if len(o["sources"]) == 1:
                    o["sources"] = ["src", "lib"]
                elif not any(p.startswith("lib/") for p in P.vfiles):
                    o["sources"] = ["src"]
                else:
                    return False
            return True
        if kind == "define":
            if "DEF_A" in P.test_defines:
                P.test_defines.remove("DEF_A")
            else:
                P.test_defines.append("DEF_A")
            return True
        if kind in ("rm_output", "rm_map", "edit_output"):
            outs = P.outputs()
            if not outs:
                return False
            o = r.pick(outs)
            if kind == "rm_output":
                self.extra_edits.append({"op": "rm_output", "path": o})
            elif kind == "rm_map":
                self.extra_edits.append({"op": "rm_output", "path": o + ".map"})
            else:
                self.extra_edits.append({"op": "edit_output", "path": o, "how": r.pick(["append", "truncate", "empty"]),
                                         "keep_mtime": r.bool()})
            return True
        if kind == "rm_filelist":
            self.extra_edits.append({"op": "rm_output", "path": f"{P.name}.f"})
            return True
        if kind in ("touch", "old_mtime"):
            paths = sorted(P.vfiles)
            if not paths:
                return False
            self.extra_edits.append({"op": "touch", "path": r.pick(paths),
                                     "delta": 0.0 if kind == "touch" else OLD_MTIME_DELTA, "late": True})
            return True
        raise ValueError(kind)

    # -- commands ---------------------------------------------------------------------------------
    def _cmd(self):
        r, P = self.rng, self.P
        c = self._weighted(self.c)
        test_base = ["test", "--format", "json", "--backend", self.test_backend, "--seed", "1"]
        if c == "build":
            return ["build"]
        if c == "check":
            return ["check"]
        if c == "clean":
            return ["clean"]
        if c == "test":
            cmd = list(test_base)
            if r.chance(1, 6):
                cmd += ["-D", r.pick(["DEF_A", "DEF_B"])]
            if r.chance(1, 10):
                cmd += ["--include-ignored"]
            return cmd
        if c == "test_filter":
            tests = P.names("test")
            flt = r.pick(tests) if tests and r.chance(4, 5) else "test_t"
            if r.chance(1, 4):
                flt = flt[:-1] if len(flt) > 6 else flt
            return test_base + ["--test", flt]
        paths = sorted(p for p in P.vfiles if not p.startswith("examples/"))
        if not paths:
            return ["build"]
        return ["build" if c == "build_file" else "check", r.pick(paths)]

    def next_step(self, cmd=None):
        kinds = []
        self.extra_edits = []
        n = self.rng.range(1, self.max_edits)
        tries = 0
        while len(kinds) < n and tries < 12:
            tries += 1
            k = self._weighted(self.w)
            if self._edit(k):
                kinds.append(k)
        renames = [e for e in self.extra_edits if e["op"] == "rename"]
        late = [e for e in self.extra_edits if e["op"] != "rename"]
        edits = renames + self._sync() + late
        argv = cmd or self._cmd()
        return {"edits": edits, "cmd": argv, "kinds": kinds,
                "expect_ok": not self.P.has_defect() and not self.P.dangling()}

    LATE_REF_VARIANTS = ("port", "fn", "delete")

    def late_ref_steps(self, variant):
        """Scripted 4-step scenario "a dependency that appears late": (pre) a successful build; (add) an existing file B starts
        referencing an existing, unchanged file A, build (A is a cache hit, so its cached dependents list must be refreshed);
        (break) A alone changes in a way only B's analysis/emit can notice, build or check; (undo).
        variants: port  = A's output port is renamed, B still connects the old name (clean build: error in B)
                  fn    = package A drops a function B (a leaf that just switched to A) calls
                  delete= A's file is deleted while B instantiates it
        Steps carry "tag" (late_ref_pre/add/break/undo) and "late_ref_target" (A's path).  Returns [] when not applicable."""
        P, r = self.P, self.rng
        self.extra_edits = []
        steps = []

        def step(tag, cmd, ok=True, target=None):
            st = {"edits": self._sync(), "cmd": cmd, "kinds": [f"late_ref_{tag}:{variant}"], "expect_ok": ok, "tag": f"late_ref_{tag}"}
            if target:
                st["late_ref_target"] = target
            steps.append(st)

        # pre: make the project build, make sure the needed items exist, build
        for _, it in P.items():
            it.pop("err_undef", None)
            it.pop("err_syntax", None)
        for p in sorted(P.attic):
            P.vfiles.setdefault(p, []).extend(P.attic.pop(p))
        if variant in ("port", "delete"):
            leaves = [n for n in P.names("leaf") if len(P.vfiles[P.file_of(n)]) == 1]
            if not leaves:
                add_random(P, r, "leaf")
                leaves = [n for n in P.names("leaf") if len(P.vfiles[P.file_of(n)]) == 1]
            a = r.pick(leaves)
            mids = [n for n in P.names("mid") if all(st_["mod"] != a for st_ in P.find(n)["stages"]) and len(P.find(n)["stages"]) < 4]
            if not mids:
                add_random(P, r, "mid")
                mids = [n for n in P.names("mid") if all(st_["mod"] != a for st_ in P.find(n)["stages"])]
            if not mids:
                return []
            b = r.pick(mids)
        elif variant == "fn":
            pk = [n for n in P.names("pkg") if P.find(n).get("fn")]
            if not pk:
                return []
            a = r.pick(pk)
            lv = [n for n in P.names("leaf") if P.find(n)["pkg"] != a]
            if not lv:
                add_random(P, r, "leaf")
                lv = [n for n in P.names("leaf") if P.find(n)["pkg"] != a]
            if not lv:
                return []
            b = r.pick(lv)
        else:
            return []
        apath = P.file_of(a)
        step("pre", ["build"])
        # add: B starts to reference the unchanged A
        bit = P.find(b)
        if variant in ("port", "delete"):
            bit["stages"].append({"mod": a})
        elif variant == "fn":
            bit["pkg"] = a
            bit["style"] = "fn"
        step("add", ["build"], target=apath)
        # break: only A changes
        ait = P.find(a)
        if variant == "port":
            ait["port_alt"] = True
            step("break", r.pick([["build"], ["check"]]), ok=False, target=apath)
            ait.pop("port_alt")
        elif variant == "fn":
            ait["fn"] = False
            step("break", r.pick([["build"], ["check"]]), ok=False, target=apath)
            ait["fn"] = True
        elif variant == "delete":
            P.attic[apath] = P.vfiles.pop(apath)
            step("break", r.pick([["build"], ["check"]]), ok=False, target=apath)
            P.vfiles.setdefault(apath, []).extend(P.attic.pop(apath))
        step("undo", ["build"])
        return steps

    def repair_step(self, cmd=None):
        """A step that removes all injected errors and restores deleted-but-referenced files."""
        self.extra_edits = []
        for _, it in self.P.items():
            it.pop("err_undef", None)
            it.pop("err_syntax", None)
        for p in sorted(self.P.attic):
            self.P.vfiles.setdefault(p, []).extend(self.P.attic.pop(p))
        return {"edits": self._sync(), "cmd": cmd or ["build"], "kinds": ["repair"], "expect_ok": not self.P.dangling()}


def _pkg_reaches(P, start, target, depth=0):
    it = P.find(start)
    while it is not None and depth < 40:
        if it["name"] == target:
            return True
        it = P.find(it["base"]) if it.get("base") else None
        depth += 1
    return False


def _mod_reaches(P, start, target, depth=0):
    if start == target:
        return True
    it = P.find(start)
    if it is None or depth > 40 or it["kind"] != "mid":
        return False
    return any(_mod_reaches(P, st["mod"], target, depth + 1) for st in it["stages"])
