#!/usr/bin/env python3
"""strace_check -- offline checker over per-process strace logs (C30).

Input: one log per *actor* (a veryl / veryl-ls process tree traced with
  strace -f -ttt -T -y --seccomp-bpf -e trace=<TRACE> -o <log>)
Every actor's events are merged on the common wall clock and three things are judged:

 R1  partial file read      actor B opens / reads file P strictly inside a *writer interval* of
                            actor A on P: from A's open(O_TRUNC | O_CREAT) returning (or A's first
                            write when the open neither truncates nor creates) to the start of A's
                            last write before the close.  "Strictly inside" uses syscall entry *and*
                            exit stamps of both sides, so clock jitter cannot produce an overlap.
                            While A's last write() is in flight (entry..exit, long when delayed by
                            injection) the order is unknown from the stamps alone: such a read is
                            flagged only with byte evidence -- B's open..close session obtained fewer
                            bytes than A's session wrote.
 R2  partial population     only for *population units* (by default <cache>/veryl/{std,dependencies,
                            resolve}/<id>): directory D was created by A's mkdir and A keeps
                            creating entries under D (the burst);
                              R2a  B lists a directory at/below D (getdents) inside the burst and A
                                   adds a direct child of that directory afterwards;
                              R2b  B gets ENOENT for a path below D inside the burst and A creates
                                   exactly that path afterwards.
 LS  blocking lock          an actor flagged `ls` issues flock(LOCK_EX|LOCK_SH) without LOCK_NB on a
                            path below one of the given `.build` directories.

Never flagged (false-alarm guards):
  * paths that are flock()ed by anybody (lock files are opened O_TRUNC by every locker);
  * files that appear by rename(): temp+rename writers have no writer interval on the target;
  * accesses ordered by a lock: B holds, at the time of its access, a lock (same lock file) that
    A holds at the time of the conflicting write / later creation -- flock() mutual exclusion
    orders the two critical sections, so B saw a state between A's critical sections;
  * an actor's own accesses.
"""
import json
import os
import re
import sys

TRACE = ("open,openat,openat2,creat,read,pread64,readv,write,pwrite64,writev,close,rename,renameat,renameat2,"
         "unlink,unlinkat,mkdir,mkdirat,rmdir,stat,lstat,newfstatat,statx,access,faccessat,faccessat2,readlink,"
         "readlinkat,flock,getdents64,ftruncate,truncate,fchmod,link,linkat,symlink,symlinkat,chdir,fchdir,"
         "execve,clone,clone3,fork,vfork,copy_file_range,sendfile")

# path classes whose final names must only appear through rename (see the structural rule in check())
ATOMIC_CLASSES = frozenset(["build:info", "project:lockfile", "build:cache:manifest", "build:cache:blob",
                            "build:cache-ls:manifest", "build:cache-ls:blob", "output", "output:dependencies", "cache:std"])

LINE = re.compile(r"^(\d+)\s+(\d+\.\d+)\s+(.*)$")
CALL = re.compile(r"^([a-z_0-9]+)\((.*)\)\s+=\s+(-?\d+|\?|0x[0-9a-f]+)(<[^>]*>)?(?:\s+([A-Z_0-9]+)\s+\([^)]*\))?(?:\s+\([^)]*\))?\s*(?:<(\d+\.\d+)>)?\s*$")
UNFIN = re.compile(r"^([a-z_0-9]+)\((.*)\s+<unfinished \.\.\.>$")
RESUM = re.compile(r"^<\.\.\.\s+([a-z_0-9]+)\s+resumed>\s*(.*)$")
FDPATH = re.compile(r"^(-?\d+|AT_FDCWD)<((?:[^<>\\]|\\.)*)>")
STR = re.compile(r'"((?:[^"\\]|\\.)*)"(\.\.\.)?')


class Ev:
    __slots__ = ("actor", "pid", "t0", "t1", "sys", "kind", "path", "path2", "flags", "ok", "err", "fd", "n")

    def __init__(self, actor, pid, t0, t1, sys_, kind, path, ok, err=None, flags="", path2=None, fd=None, n=None):
        self.actor, self.pid, self.t0, self.t1, self.sys = actor, pid, t0, t1, sys_
        self.kind, self.path, self.ok, self.err, self.flags, self.path2, self.fd, self.n = kind, path, ok, err, flags, path2, fd, n

    def brief(self, t_base=0.0):
        return {"actor": self.actor, "t": round(self.t0 - t_base, 6), "dur": round(self.t1 - self.t0, 6), "sys": self.sys,
                "path": self.path, **({"flags": self.flags} if self.flags else {}), **({} if self.ok else {"err": self.err})}


def unescape(s):
    try:
        return bytes(s, "latin-1").decode("unicode_escape").encode("latin-1").decode("utf-8", "replace")
    except Exception:
        return s


def split_args(s):
    """Split a strace argument list at top-level commas."""
    out, depth, cur, i, n = [], 0, [], 0, len(s)
    instr = False
    while i < n:
        c = s[i]
        if instr:
            cur.append(c)
            if c == "\\" and i + 1 < n:
                cur.append(s[i + 1]); i += 1
            elif c == '"':
                instr = False
        elif c == '"':
            instr = True; cur.append(c)
        elif c in "([{<":
            depth += 1; cur.append(c)
        elif c in ")]}>":
            depth -= 1; cur.append(c)
        elif c == "," and depth == 0:
            out.append("".join(cur).strip()); cur = []
        else:
            cur.append(c)
        i += 1
    if cur:
        out.append("".join(cur).strip())
    return out


def norm(p):
    if p is None:
        return None
    p = os.path.normpath(p)
    return p


class Actor:
    def __init__(self, name, log, cwd, role="build"):
        self.name, self.log, self.cwd0, self.role = name, log, cwd, role
        self.events = []
        self.exit = {}            # pid -> ("exited", code) | ("killed", sig)
        self.first_pid = None
        self.parse_errors = 0
        self.lines = 0

    # -- parsing -------------------------------------------------------------------------------
    def parse(self):
        pending = {}
        cwd = {}
        with open(self.log, "r", errors="replace") as f:
            for raw in f:
                m = LINE.match(raw.rstrip("\n"))
                if not m:
                    continue
                self.lines += 1
                pid, ts, rest = int(m.group(1)), float(m.group(2)), m.group(3)
                if self.first_pid is None:
                    self.first_pid = pid
                    cwd[pid] = self.cwd0
                if rest.startswith("+++"):
                    mm = re.match(r"\+\+\+ exited with (\d+) \+\+\+", rest)
                    if mm:
                        self.exit[pid] = ("exited", int(mm.group(1)), ts)
                    mm = re.match(r"\+\+\+ killed by (\w+)", rest)
                    if mm:
                        self.exit[pid] = ("killed", mm.group(1), ts)
                    continue
                if rest.startswith("---"):
                    continue
                u = UNFIN.match(rest)
                if u:
                    pending[pid] = (ts, u.group(1), u.group(2))
                    continue
                r = RESUM.match(rest)
                t_enter = ts
                if r:
                    if pid not in pending:
                        self.parse_errors += 1
                        continue
                    t_enter, name, head = pending.pop(pid)
                    if name != r.group(1):
                        self.parse_errors += 1
                        continue
                    rest = f"{name}({head} {r.group(2)}"
                c = CALL.match(rest)
                if not c:
                    # e.g. exit_group, or a line cut by a kill
                    if not rest.startswith(("exit", "<...")):
                        self.parse_errors += 1
                    continue
                name, argstr, ret, retpath, errno, dur = c.group(1), c.group(2), c.group(3), c.group(4), c.group(5), c.group(6)
                t1 = t_enter + float(dur) if dur else ts
                if r and not dur:
                    t1 = ts
                if t1 < t_enter:
                    t1 = t_enter
                try:
                    self.handle(pid, t_enter, t1, name, argstr, ret, retpath, errno, cwd)
                except Exception:
                    self.parse_errors += 1
        self.events.sort(key=lambda e: e.t0)

    def resolve(self, pid, cwd, dirspec, rel):
        rel = unescape(rel)
        if rel.startswith("/"):
            return norm(rel)
        base = None
        if dirspec is not None:
            m = FDPATH.match(dirspec)
            if m:
                base = unescape(m.group(2))
        if base is None:
            base = cwd.get(pid) or self.cwd0
        return norm(os.path.join(base, rel))

    def add(self, *a, **k):
        self.events.append(Ev(self.name, *a, **k))

    def handle(self, pid, t0, t1, name, argstr, ret, retpath, errno, cwd):
        args = split_args(argstr)
        ok = errno is None and ret not in ("?",) and not ret.startswith("-")

        def s(i):
            m = STR.match(args[i]) if i < len(args) else None
            return m.group(1) if m else None

        def fdp(i):
            m = FDPATH.match(args[i]) if i < len(args) else None
            return (m.group(1), norm(unescape(m.group(2)))) if m else (None, None)

        if name in ("clone", "clone3", "fork", "vfork"):
            if ok:
                child = int(ret)
                flags = argstr
                cwd[child] = cwd.get(pid, self.cwd0)
            return
        if name == "execve":
            return
        if name == "chdir":
            if ok:
                cwd[pid] = self.resolve(pid, cwd, None, s(0) or ".")
            return
        if name == "fchdir":
            if ok:
                cwd[pid] = fdp(0)[1] or cwd.get(pid)
            return
        if name in ("open", "creat"):
            path = self.resolve(pid, cwd, None, s(0) or "")
            flags = args[1] if name == "open" and len(args) > 1 else "O_WRONLY|O_CREAT|O_TRUNC"
            self.open_event(pid, t0, t1, name, path, flags, ok, errno, ret, retpath)
            return
        if name in ("openat", "openat2"):
            path = self.resolve(pid, cwd, args[0], s(1) or "")
            flags = args[2] if len(args) > 2 else ""
            self.open_event(pid, t0, t1, name, path, flags, ok, errno, ret, retpath)
            return
        if name in ("read", "pread64", "readv"):
            fd, p = fdp(0)
            if p and p.startswith("/"):
                self.add(pid, t0, t1, name, "read", p, ok, errno, fd=fd, n=int(ret) if ok else None)
            return
        if name in ("write", "pwrite64", "writev", "ftruncate", "fchmod"):
            fd, p = fdp(0)
            if p and p.startswith("/"):
                kind = "write" if name != "fchmod" else "fmeta"
                self.add(pid, t0, t1, name, kind, p, ok, errno, fd=fd, n=int(ret) if ok and name != "fchmod" else None)
            return
        if name == "close":
            fd, p = fdp(0)
            if p and p.startswith("/"):
                self.add(pid, t0, t1, name, "close", p, ok, errno, fd=fd)
            return
        if name == "getdents64":
            fd, p = fdp(0)
            if p:
                self.add(pid, t0, t1, name, "list", p, ok, errno, fd=fd, n=int(ret) if ok else None)
            return
        if name == "flock":
            fd, p = fdp(0)
            self.add(pid, t0, t1, name, "flock", p, ok, errno, flags=args[1] if len(args) > 1 else "", fd=fd)
            return
        if name in ("stat", "lstat", "access", "readlink", "truncate"):
            p = self.resolve(pid, cwd, None, s(0) or "")
            self.add(pid, t0, t1, name, "stat" if name != "truncate" else "trunc", p, ok, errno)
            return
        if name in ("newfstatat", "statx", "faccessat", "faccessat2", "readlinkat"):
            rel = s(1)
            if rel == "" or rel is None:
                return                      # fstat on an fd (AT_EMPTY_PATH)
            p = self.resolve(pid, cwd, args[0], rel)
            self.add(pid, t0, t1, name, "stat", p, ok, errno)
            return
        if name in ("mkdir",):
            p = self.resolve(pid, cwd, None, s(0) or "")
            self.add(pid, t0, t1, name, "mkdir", p, ok, errno)
            return
        if name == "mkdirat":
            p = self.resolve(pid, cwd, args[0], s(1) or "")
            self.add(pid, t0, t1, name, "mkdir", p, ok, errno)
            return
        if name in ("rename",):
            a, b = self.resolve(pid, cwd, None, s(0) or ""), self.resolve(pid, cwd, None, s(1) or "")
            self.add(pid, t0, t1, name, "rename", b, ok, errno, path2=a)
            return
        if name in ("renameat", "renameat2"):
            a, b = self.resolve(pid, cwd, args[0], s(1) or ""), self.resolve(pid, cwd, args[2], s(3) or "")
            self.add(pid, t0, t1, name, "rename", b, ok, errno, path2=a)
            return
        if name in ("link", "symlink"):
            b = self.resolve(pid, cwd, None, s(1) or "")
            self.add(pid, t0, t1, name, "rename", b, ok, errno, path2=None)
            return
        if name in ("linkat",):
            b = self.resolve(pid, cwd, args[2], s(3) or "")
            self.add(pid, t0, t1, name, "rename", b, ok, errno, path2=None)
            return
        if name in ("symlinkat",):
            b = self.resolve(pid, cwd, args[1], s(2) or "")
            self.add(pid, t0, t1, name, "rename", b, ok, errno, path2=None)
            return
        if name in ("unlink", "rmdir"):
            p = self.resolve(pid, cwd, None, s(0) or "")
            self.add(pid, t0, t1, name, "unlink", p, ok, errno)
            return
        if name == "unlinkat":
            p = self.resolve(pid, cwd, args[0], s(1) or "")
            self.add(pid, t0, t1, name, "unlink", p, ok, errno)
            return

    def open_event(self, pid, t0, t1, name, path, flags, ok, errno, ret, retpath):
        if ok and retpath:
            rp = unescape(retpath[1:-1])
            if rp.startswith("/"):
                path = norm(rp)
        wr = ("O_WRONLY" in flags) or ("O_RDWR" in flags)
        if "O_DIRECTORY" in flags and not wr:
            kind = "opendir"
        elif wr:
            kind = "openw"
        else:
            kind = "openr"
        self.add(pid, t0, t1, name, kind, path, ok, errno, flags=flags, fd=ret if ok else None)


# ----------------------------------------------------------------------------------------------
# lock model
# ----------------------------------------------------------------------------------------------

class Holds:
    """Per actor: list of (lock path, t_acquired, t_released)."""

    def __init__(self, actor):
        self.h = []
        open_ = {}      # (pid, fd) -> (path, t_acq)
        end = max([e.t1 for e in actor.events], default=0.0) + 1.0
        self.flocks = [e for e in actor.events if e.kind == "flock"]
        for e in actor.events:
            if e.kind == "flock" and e.ok:
                key = (e.fd, e.path)
                if "LOCK_UN" in e.flags:
                    if key in open_:
                        p, t = open_.pop(key)
                        self.h.append((p, t, e.t1))
                elif "LOCK_EX" in e.flags or "LOCK_SH" in e.flags:
                    open_.setdefault(key, (e.path, e.t1))
            elif e.kind == "close" and (e.fd, e.path) in open_:
                p, t = open_.pop((e.fd, e.path))
                self.h.append((p, t, e.t1))
        for (fd, path), (p, t) in open_.items():
            self.h.append((p, t, end))

    def held_at(self, t0, t1=None):
        t1 = t0 if t1 is None else t1
        return {p for (p, a, b) in self.h if a <= t0 and t1 <= b}


# ----------------------------------------------------------------------------------------------
# the check
# ----------------------------------------------------------------------------------------------

def path_class(p, cfg):
    cache = cfg.get("cache_root")
    if cache and (p == cache or p.startswith(cache + "/")):
        rel = p[len(cache) + 1:]
        parts = rel.split("/")
        if parts[:2] == ["veryl", "std"]:
            return "cache:std"
        if parts[:2] == ["veryl", "dependencies"]:
            return "cache:dependencies"
        if parts[:2] == ["veryl", "resolve"]:
            return "cache:resolve"
        return "cache:other"
    for prj in cfg.get("projects", []):
        if p == prj or p.startswith(prj + "/"):
            rel = p[len(prj) + 1:]
            if rel.startswith(".build/cache-ls/"):
                return "build:cache-ls:" + ("manifest" if rel.endswith("manifest.toml") else "blob" if "/fragments/" in rel else "other")
            if rel.startswith(".build/cache/"):
                return "build:cache:" + ("manifest" if rel.endswith("manifest.toml") else "blob" if "/fragments/" in rel else "other")
            if rel == ".build/info.toml":
                return "build:info"
            if rel.startswith(".build"):
                return "build:other"
            if rel == "Veryl.lock":
                return "project:lockfile"
            if rel.startswith("dependencies/"):
                return "output:dependencies"
            if rel.startswith("target/") or rel.endswith((".sv", ".f", ".map")):
                return "output"
            if rel.endswith(".veryl") or rel in ("Veryl.toml", "Veryl.pub"):
                return "source"
            return "project:other"
    return None


def population_unit(p, cfg):
    """The population unit directory containing p (or p itself), or None."""
    cache = cfg.get("cache_root")
    if not cache:
        return None
    pre = cache + "/veryl/"
    if not p.startswith(pre):
        return None
    parts = p[len(pre):].split("/")
    if len(parts) >= 2 and parts[0] in ("std", "dependencies", "resolve") and parts[1] not in ("lock", ""):
        return pre + parts[0] + "/" + parts[1]
    return None


def check(actors, cfg):
    """actors: [Actor] (parsed). cfg: cache_root, projects[], build_dirs[] (for the LS rule).
    Returns dict(findings=[...], stats={...})."""
    stats = {}
    findings = []

    def bump(k, n=1):
        stats[k] = stats.get(k, 0) + n

    holds = {a.name: Holds(a) for a in actors}
    lockfiles = set()
    for a in actors:
        for e in a.events:
            if e.kind == "flock" and e.path:
                lockfiles.add(e.path)
    t_base = min([a.events[0].t0 for a in actors if a.events], default=0.0)

    interesting = lambda p: p is not None and path_class(p, cfg) is not None and p not in lockfiles  # noqa: E731

    # ---- LS rule ----------------------------------------------------------------------------------
    for a in actors:
        for e in a.events:
            if e.kind != "flock":
                continue
            bump("flock_calls")
            if e.ok and (e.t1 - e.t0) > 0.002 and "LOCK_UN" not in e.flags:
                bump("flock_waited")
            if e.err == "EAGAIN" or e.err == "EWOULDBLOCK":
                bump("flock_wouldblock")
            if a.role == "ls":
                under = any(e.path and (e.path.startswith(b + "/")) for b in cfg.get("build_dirs", []))
                if under:
                    bump("ls_flock_under_build")
                    if ("LOCK_EX" in e.flags or "LOCK_SH" in e.flags):
                        if "LOCK_NB" in e.flags:
                            bump("ls_flock_nonblocking")
                        else:
                            findings.append({"rule": "LS", "kind": "ls_blocking_flock", "class": path_class(e.path, cfg) or "build:lock",
                                             "what": f"{a.name} issued a blocking flock({e.flags}) on {e.path} (waited {e.t1 - e.t0:.3f}s)",
                                             "events": [e.brief(t_base)]})

    # ---- writer sessions (R1) --------------------------------------------------------------------
    sessions = []      # dict(actor, path, start, end, trunc, nwrites, open_ev, last_write)
    renamed_into = {}  # path -> [(actor, t)]
    for a in actors:
        open_sessions = {}
        for e in a.events:
            if e.kind == "openw" and e.ok and interesting(e.path):
                trunc = "O_TRUNC" in e.flags or "O_CREAT" in e.flags
                open_sessions.setdefault((e.path, e.fd), []).append({"actor": a.name, "path": e.path, "open": e, "trunc": trunc, "writes": []})
            elif e.kind == "write" and e.ok:
                for (p, fd), lst in open_sessions.items():
                    if p == e.path and fd == e.fd and lst:
                        lst[-1]["writes"].append(e)
            elif e.kind == "close":
                key = (e.path, e.fd)
                if key in open_sessions and open_sessions[key]:
                    sessions.append(open_sessions[key].pop())
                else:
                    # the fd may have been renamed meanwhile (temp+rename): close by fd number
                    for (p, fd), lst in list(open_sessions.items()):
                        if fd == e.fd and lst and lst[-1]["open"].pid == e.pid:
                            sessions.append(lst.pop())
                            break
            elif e.kind == "rename" and e.ok:
                renamed_into.setdefault(e.path, []).append((a.name, e.t0))
        for lst in open_sessions.values():
            sessions.extend(lst)
    wsess = []
    for s in sessions:
        if not s["writes"]:
            continue
        start = s["open"].t1 if s["trunc"] else s["writes"][0].t0
        end = s["writes"][-1].t0
        if "O_EXCL" in s["open"].flags:
            bump("writer_sessions_private_temp")
        wsess.append({"actor": s["actor"], "path": s["path"], "start": start, "end": end, "open": s["open"], "last": s["writes"][-1],
                      "writes": s["writes"]})
    bump("writer_sessions", len(wsess))

    # ---- structural rule: lock-free-read classes must be published by rename only -------------------
    # A *final-name* path of these classes is read by other processes without the writer's lock
    # (info.toml: Metadata::load before .build/lock and veryl-ls; Veryl.lock: veryl-ls global_key; cache manifest /
    # blobs: "writes stay atomic, readers degrade to misses" contract of veryl_cache::Store, also used lock-free by a
    # second veryl-ls; outputs and the filelist: read by downstream tools and trusted by dst_is_stale; std/<hash>/**:
    # every process reads it after a bare exists() check).  So such a path may only ever *appear complete*: opening it
    # under its final name with O_CREAT/O_TRUNC and then writing into it is a non-atomic publish, whether or not a
    # reader happened to look in this run.  Temp names (.tmpXXXX, anything below a *.partial directory) are private.
    atomic_classes = cfg.get("atomic_classes", ATOMIC_CLASSES)
    flagged_np = set()
    # non-vacuity: how often a final name of such a class really was published (by rename) in this run
    for a in actors:
        for e in a.events:
            if e.kind == "rename" and e.ok and e.path and e.path not in lockfiles:
                cls = path_class(e.path, cfg)
                if cls in atomic_classes and not e.path.split("/")[-1].startswith(".tmp"):
                    bump("atomic_publishes:" + cls)
                    bump("atomic_publishes")
    for s in wsess:
        p = s["path"]
        cls = path_class(p, cfg)
        if cls is None or not ("O_TRUNC" in s["open"].flags or "O_CREAT" in s["open"].flags):
            continue
        parts = p.split("/")
        if parts[-1].startswith(".tmp") or any(x.endswith(".partial") for x in parts):
            continue
        bump("final_name_writes:" + cls)
        if cls in atomic_classes and (s["actor"], cls) not in flagged_np:
            flagged_np.add((s["actor"], cls))
            findings.append({"rule": "NP", "kind": "nonatomic_publish", "class": cls,
                             "what": f"{s['actor']} opened {p} under its final name with {s['open'].flags} and wrote {sum(w.n or 0 for w in s['writes'])} "
                                     f"bytes into it in place (open +{s['open'].t0 - t_base:.4f}s, last write +{s['last'].t1 - t_base:.4f}s): files of class "
                                     f"{cls} are read by other processes without the writer's lock and must be published by rename",
                             "writer": s["actor"], "path": p, "events": [s["open"].brief(t_base), s["last"].brief(t_base)]})
    by_path = {}
    for s in wsess:
        by_path.setdefault(s["path"], []).append(s)

    considered = set()
    for s_ in wsess:
        s_["end_tail"] = s_["last"].t1                       # the last write has certainly landed here
        s_["bytes"] = sum(w.n or 0 for w in s_["writes"])
    for b in actors:
        # reader sessions: open .. close on one fd, with the bytes obtained
        rs_open = {}
        rsessions = []
        for e in b.events:
            if e.kind in ("openr", "openw") and e.ok and e.path in by_path and "O_TRUNC" not in e.flags:
                rs_open[(e.pid, e.fd)] = {"open": e, "reads": [], "path": e.path}
                rsessions.append(rs_open[(e.pid, e.fd)])
            elif e.kind == "read" and e.ok and e.path in by_path:
                r = rs_open.get((e.pid, e.fd))
                if r is None or r["path"] != e.path:
                    # fd used by another thread id: match by fd + path
                    r = next((x for (p_, f_), x in rs_open.items() if f_ == e.fd and x["path"] == e.path), None)
                if r is not None:
                    r["reads"].append(e)
            elif e.kind == "close":
                for key in [k for k, x in rs_open.items() if k[1] == e.fd and x["path"] == e.path]:
                    rs_open.pop(key)
        for r in rsessions:
            e = r["open"]
            for s in by_path[r["path"]]:
                if s["actor"] == b.name:
                    continue
                considered.add((e.path, s["actor"], b.name))
                evs = [e] + r["reads"]
                strict = [x for x in evs if s["start"] < x.t0 and x.t1 < s["end"]]
                got = sum(x.n or 0 for x in r["reads"])
                tail = (not strict and r["reads"] and s["start"] < e.t0 and r["reads"][-1].t1 < s["end_tail"] and got < s["bytes"])
                if not strict and not tail:
                    continue
                bump("reads_inside_writer_interval")
                x = strict[0] if strict else r["reads"][-1]
                hb = holds[b.name].held_at(x.t0, x.t1)
                ha_all = None
                for w in s["writes"]:
                    hw = holds[s["actor"]].held_at(w.t0, w.t1)
                    ha_all = hw if ha_all is None else (ha_all & hw)
                if hb & (ha_all or set()):
                    bump("reads_ordered_by_lock")
                    continue
                how = ("strictly before the writer's last write began" if strict else
                       f"before the writer's last write returned, and obtained only {got} of the {s['bytes']} bytes written")
                findings.append({"rule": "R1", "kind": "read_during_write", "class": path_class(e.path, cfg),
                                 "what": f"{b.name} {x.sys}() {e.path} at +{x.t0 - t_base:.4f}s inside {s['actor']}'s writer interval "
                                         f"[open +{s['start'] - t_base:.4f}s, last write +{s['end'] - t_base:.4f}s..+{s['end_tail'] - t_base:.4f}s] "
                                         f"({s['open'].flags}) {how}; reader holds {sorted(hb) or 'no lock'}",
                                 "reader": b.name, "writer": s["actor"], "path": e.path, "bytes_read": got, "bytes_written": s["bytes"],
                                 "events": [s["open"].brief(t_base), x.brief(t_base), s["last"].brief(t_base)]})
    bump("reader_writer_pairs_on_plainly_written_files", len(considered))

    # files that readers got through an atomic rename (of the file itself or of a directory above it)
    renamed_dirs = [(p, who) for p, who in renamed_into.items()]
    for b in actors:
        seen = set()
        for e in b.events:
            if e.kind in ("openr", "read") and e.ok and e.path not in seen and e.path:
                if e.path in renamed_into:
                    if any(an != b.name for an, _ in renamed_into[e.path]):
                        seen.add(e.path)
                        bump("reads_of_rename_published_files")
                else:
                    for d, who in renamed_dirs:
                        if e.path.startswith(d + "/") and any(an != b.name and t <= e.t0 for an, t in who):
                            seen.add(e.path)
                            bump("reads_below_rename_published_dirs")
                            break

    # ---- population units (R2) -------------------------------------------------------------------
    for a in actors:
        units = {}
        for e in a.events:
            if e.kind == "mkdir" and e.ok:
                u = population_unit(e.path, cfg)
                if u and u == e.path and u not in units:
                    units[u] = {"mkdir": e, "creates": []}
        if not units:
            continue
        for e in a.events:
            if not e.ok or e.path is None:
                continue
            u = population_unit(e.path, cfg)
            if u not in units or e.t0 < units[u]["mkdir"].t0 or e.path in lockfiles:
                continue
            if (e.kind == "mkdir" and e.path != u) or (e.kind == "openw" and "O_CREAT" in e.flags) or e.kind == "rename":
                units[u]["creates"].append(e)
        for u, info in units.items():
            # A population that starts inside a critical section ends with it: the burst is bounded by the first release
            # among the locks the writer held at the mkdir (e.g. clone under dependencies/lock).  What the writer creates
            # below the unit later (its own `.build` directory from Metadata::load, ...) is not part of the population.
            mk = info["mkdir"]
            rel = [r for (lp, acq, r) in holds[a.name].h if acq <= mk.t0 and mk.t1 <= r]
            if rel:
                bound = min(rel)
                info["creates"] = [c for c in info["creates"] if c.t1 <= bound]
            if not info["creates"]:
                continue
            bump("population_bursts")
            start, end = info["mkdir"].t1, info["creates"][-1].t0
            created_at = {}
            for c in info["creates"]:
                created_at.setdefault(c.path, c)
            for b in actors:
                if b.name == a.name:
                    continue
                touched = False
                for e in b.events:
                    if e.path is None or not (e.path == u or e.path.startswith(u + "/")) or e.path in lockfiles:
                        continue
                    if not (start < e.t0 and e.t1 < end):
                        if e.t0 >= end and not touched:
                            pass
                        continue
                    touched = True
                    hb = holds[b.name].held_at(e.t0, e.t1)
                    if e.kind == "list" and e.ok:
                        later = [c for c in info["creates"] if c.t0 > e.t1 and os.path.dirname(c.path) == e.path]
                        if not later:
                            continue
                        bump("listings_inside_population")
                        later_unordered = [c for c in later if not (hb & holds[a.name].held_at(c.t0, c.t1))]
                        if not later_unordered:
                            bump("listings_ordered_by_lock")
                            continue
                        c = later_unordered[0]
                        findings.append({"rule": "R2a", "kind": "partial_directory_listing", "class": path_class(u, cfg),
                                         "what": f"{b.name} listed {e.path} at +{e.t0 - t_base:.4f}s while {a.name} was still populating "
                                                 f"{u} (mkdir +{start - t_base:.4f}s, last create +{end - t_base:.4f}s); {len(later_unordered)} "
                                                 f"entries of that directory were created afterwards, first {c.path} at +{c.t0 - t_base:.4f}s; "
                                                 f"reader holds {sorted(hb) or 'no lock'}",
                                         "reader": b.name, "writer": a.name, "path": u,
                                         "events": [info["mkdir"].brief(t_base), e.brief(t_base), c.brief(t_base)]})
                    elif e.kind in ("stat", "openr", "opendir") and not e.ok and e.err == "ENOENT" and e.path in created_at:
                        c = created_at[e.path]
                        if c.t0 <= e.t1:
                            continue
                        bump("enoent_inside_population")
                        if hb & holds[a.name].held_at(c.t0, c.t1):
                            bump("enoent_ordered_by_lock")
                            continue
                        findings.append({"rule": "R2b", "kind": "absent_during_population", "class": path_class(u, cfg),
                                         "what": f"{b.name} {e.sys}() {e.path} = ENOENT at +{e.t0 - t_base:.4f}s while {a.name} was populating {u}; "
                                                 f"{a.name} created it at +{c.t0 - t_base:.4f}s; reader holds {sorted(hb) or 'no lock'}",
                                         "reader": b.name, "writer": a.name, "path": u,
                                         "events": [info["mkdir"].brief(t_base), e.brief(t_base), c.brief(t_base)]})
                if touched:
                    bump("population_bursts_observed_by_other")

    # ---- interleaving / non-vacuity ----------------------------------------------------------------
    spans = {}
    for a in actors:
        ev = [e for e in a.events if interesting(e.path)]
        if ev:
            spans[a.name] = (ev[0].t0, ev[-1].t1)
    names = list(spans)
    inter = False
    for i in range(len(names)):
        for j in range(i + 1, len(names)):
            x, y = spans[names[i]], spans[names[j]]
            if max(x[0], y[0]) < min(x[1], y[1]):
                inter = True
    stats["lifetimes_overlap"] = 1 if inter else 0
    # shared paths: touched by >= 2 actors, written (any way) by at least one
    touched, written = {}, {}
    for a in actors:
        for e in a.events:
            if not interesting(e.path):
                continue
            touched.setdefault(e.path, set()).add(a.name)
            if e.kind in ("openw", "write", "mkdir", "rename", "unlink") and e.ok:
                written.setdefault(e.path, set()).add(a.name)
    shared = [p for p, s in touched.items() if len(s) >= 2 and p in written]
    stats["shared_written_paths"] = len(shared)
    # critical sections interleaved: on some shared *area* (same root directory + path class, with at least one
    # write-type event in it by anybody) two actors were active in overlapping time windows.  Areas, not single
    # paths: a writer that populates a private name and renames it still works in the area the reader polls.
    def root_of(p):
        cache = cfg.get("cache_root")
        if cache and (p == cache or p.startswith(cache + "/")):
            return cache
        for prj in cfg.get("projects", []):
            if p == prj or p.startswith(prj + "/"):
                return prj
        return None

    win, area_written = {}, set()
    for a in actors:
        for e in a.events:
            if not interesting(e.path):
                continue
            area = (root_of(e.path), path_class(e.path, cfg))
            if e.kind in ("openw", "write", "mkdir", "rename", "unlink") and e.ok:
                area_written.add(area)
            k = (area, a.name)
            lo, hi = win.get(k, (e.t0, e.t1))
            win[k] = (min(lo, e.t0), max(hi, e.t1))
    classes = {}
    for (area, an), w in win.items():
        if area in area_written and area[1] != "source":
            classes.setdefault(area[1], {}).setdefault(area[0], {})[an] = w
    il = set()
    for c, roots in classes.items():
        for d in roots.values():
            ns = list(d)
            for i in range(len(ns)):
                for j in range(i + 1, len(ns)):
                    if max(d[ns[i]][0], d[ns[j]][0]) < min(d[ns[i]][1], d[ns[j]][1]):
                        il.add(c)
    stats["interleaved_classes"] = sorted(il)
    stats["critical_sections_interleaved"] = 1 if il else 0
    stats["events"] = sum(len(a.events) for a in actors)
    stats["parse_errors"] = sum(a.parse_errors for a in actors)
    return {"findings": findings, "stats": stats}


# ----------------------------------------------------------------------------------------------
# self-test: hand-written logs (a writer, a racing reader, a lock-ordered reader, two LS variants)
# ----------------------------------------------------------------------------------------------

_SELFTEST_LOGS = {'a': '100 1000.000000 execve("/x/veryl", ["veryl", "build"], 0x7ffe /* 10 vars */) = 0 <0.000100>\n100 1000.100000 openat(AT_FDCWD</w/pa>, "/w/pa/.build/lock", O_WRONLY|O_CREAT|O_TRUNC|O_CLOEXEC, 0666) = 3</w/pa/.build/lock> <0.000020>\n100 1000.100100 flock(3</w/pa/.build/lock>, LOCK_EX) = 0 <0.000010>\n100 1000.200000 mkdir("/w/home/.cache/veryl/std/abcdef0123456789", 0777) = 0 <0.000020>\n100 1000.200100 openat(AT_FDCWD</w/pa>, "/w/home/.cache/veryl/std/abcdef0123456789/lock", O_WRONLY|O_CREAT|O_TRUNC|O_CLOEXEC, 0666) = 4</w/home/.cache/veryl/std/abcdef0123456789/lock> <0.000020>\n100 1000.200200 flock(4</w/home/.cache/veryl/std/abcdef0123456789/lock>, LOCK_EX) = 0 <0.000010>\n100 1000.300000 mkdir("/w/home/.cache/veryl/std/abcdef0123456789/fifo", 0777) = 0 <0.000020>\n100 1000.300100 openat(AT_FDCWD</w/pa>, "/w/home/.cache/veryl/std/abcdef0123456789/fifo/fifo.veryl", O_WRONLY|O_CREAT|O_TRUNC|O_CLOEXEC, 0666) = 5</w/home/.cache/veryl/std/abcdef0123456789/fifo/fifo.veryl> <0.000020>\n100 1000.400000 write(5</w/home/.cache/veryl/std/abcdef0123456789/fifo/fifo.veryl>, "pub module fifo"..., 1000) = 1000 <0.000020>\n100 1000.400100 close(5</w/home/.cache/veryl/std/abcdef0123456789/fifo/fifo.veryl>) = 0 <0.000010>\n100 1000.500000 mkdir("/w/home/.cache/veryl/std/abcdef0123456789/gray", 0777) = 0 <0.000020>\n100 1000.500100 openat(AT_FDCWD</w/pa>, "/w/home/.cache/veryl/std/abcdef0123456789/gray/gray.veryl", O_WRONLY|O_CREAT|O_TRUNC|O_CLOEXEC, 0666) = 5</w/home/.cache/veryl/std/abcdef0123456789/gray/gray.veryl> <0.000020>\n100 1000.600000 write(5</w/home/.cache/veryl/std/abcdef0123456789/gray/gray.veryl>, "pub module gray"..., 500) = 500 <0.000020>\n100 1000.600100 close(5</w/home/.cache/veryl/std/abcdef0123456789/gray/gray.veryl>) = 0 <0.000010>\n100 1000.600200 flock(4</w/home/.cache/veryl/std/abcdef0123456789/lock>, LOCK_UN) = 0 <0.000010>\n100 1000.700000 openat(AT_FDCWD</w/pa>, "/w/pa/target/a.sv", O_WRONLY|O_CREAT|O_TRUNC|O_CLOEXEC, 0666) = 5</w/pa/target/a.sv> <0.000020>\n100 1000.710000 write(5</w/pa/target/a.sv>, "module a"..., 100) = 100 <0.000020>\n100 1000.710100 close(5</w/pa/target/a.sv>) = 0 <0.000010>\n100 1000.800000 flock(3</w/pa/.build/lock>, LOCK_UN) = 0 <0.000010>\n100 1000.900000 +++ exited with 0 +++\n', 'b_bad': '200 1000.050000 execve("/x/veryl", ["veryl", "build"], 0x7ffe /* 10 vars */) = 0 <0.000100>\n200 1000.350000 statx(AT_FDCWD</w/pb>, "/w/home/.cache/veryl/std/abcdef0123456789", AT_STATX_SYNC_AS_STAT, STATX_ALL, {stx_mask=STATX_ALL, stx_mode=S_IFDIR|0755, stx_size=4096, ...}) = 0 <0.000010>\n200 1000.360000 openat(AT_FDCWD</w/pb>, "/w/home/.cache/veryl/std/abcdef0123456789", O_RDONLY|O_NONBLOCK|O_CLOEXEC|O_DIRECTORY) = 3</w/home/.cache/veryl/std/abcdef0123456789> <0.000010>\n200 1000.360100 getdents64(3</w/home/.cache/veryl/std/abcdef0123456789>, 0x55 /* 4 entries */, 32768) = 112 <0.000010>\n200 1000.360200 close(3</w/home/.cache/veryl/std/abcdef0123456789>) = 0 <0.000010>\n200 1000.370000 openat(AT_FDCWD</w/pb>, "/w/home/.cache/veryl/std/abcdef0123456789/fifo/fifo.veryl", O_RDONLY|O_CLOEXEC) = 3</w/home/.cache/veryl/std/abcdef0123456789/fifo/fifo.veryl> <0.000010>\n200 1000.370100 read(3</w/home/.cache/veryl/std/abcdef0123456789/fifo/fifo.veryl>, "", 32) = 0 <0.000010>\n200 1000.370200 close(3</w/home/.cache/veryl/std/abcdef0123456789/fifo/fifo.veryl>) = 0 <0.000010>\n200 1000.705000 openat(AT_FDCWD</w/pb>, "/w/pa/target/a.sv", O_RDONLY|O_CLOEXEC) = 3</w/pa/target/a.sv> <0.000010>\n200 1000.705100 read(3</w/pa/target/a.sv>, "", 32) = 0 <0.000010>\n200 1000.705200 close(3</w/pa/target/a.sv>) = 0 <0.000010>\n200 1000.950000 +++ exited with 0 +++\n', 'b_good': '200 1000.050000 execve("/x/veryl", ["veryl", "build"], 0x7ffe /* 10 vars */) = 0 <0.000100>\n200 1000.100500 openat(AT_FDCWD</w/pa>, "/w/pa/.build/lock", O_WRONLY|O_CREAT|O_TRUNC|O_CLOEXEC, 0666) = 3</w/pa/.build/lock> <0.000020>\n200 1000.100600 flock(3</w/pa/.build/lock>, LOCK_EX <unfinished ...>\n200 1000.800100 <... flock resumed>) = 0 <0.699500>\n200 1000.810000 openat(AT_FDCWD</w/pa>, "/w/home/.cache/veryl/std/abcdef0123456789", O_RDONLY|O_NONBLOCK|O_CLOEXEC|O_DIRECTORY) = 4</w/home/.cache/veryl/std/abcdef0123456789> <0.000010>\n200 1000.810100 getdents64(4</w/home/.cache/veryl/std/abcdef0123456789>, 0x55 /* 5 entries */, 32768) = 112 <0.000010>\n200 1000.820000 openat(AT_FDCWD</w/pa>, "/w/pa/target/a.sv", O_RDONLY|O_CLOEXEC) = 5</w/pa/target/a.sv> <0.000010>\n200 1000.820100 read(5</w/pa/target/a.sv>, "module a"..., 8192) = 100 <0.000010>\n200 1000.820200 close(5</w/pa/target/a.sv>) = 0 <0.000010>\n200 1000.900000 flock(3</w/pa/.build/lock>, LOCK_UN) = 0 <0.000010>\n200 1000.950000 +++ exited with 0 +++\n', 'ls_bad': '300 1000.050000 execve("/x/veryl-ls", ["veryl-ls"], 0x7ffe /* 10 vars */) = 0 <0.000100>\n300 1000.150000 openat(AT_FDCWD</w/pa>, "/w/pa/.build/cache-ls/lock", O_WRONLY|O_CREAT|O_TRUNC|O_CLOEXEC, 0666) = 7</w/pa/.build/cache-ls/lock> <0.000020>\n300 1000.150100 flock(7</w/pa/.build/cache-ls/lock>, LOCK_EX) = 0 <0.000010>\n300 1000.950000 +++ exited with 0 +++\n', 'ls_good': '300 1000.050000 execve("/x/veryl-ls", ["veryl-ls"], 0x7ffe /* 10 vars */) = 0 <0.000100>\n300 1000.150000 openat(AT_FDCWD</w/pa>, "/w/pa/.build/cache-ls/lock", O_WRONLY|O_CREAT|O_TRUNC|O_CLOEXEC, 0666) = 7</w/pa/.build/cache-ls/lock> <0.000020>\n300 1000.150100 flock(7</w/pa/.build/cache-ls/lock>, LOCK_EX|LOCK_NB) = 0 <0.000010>\n300 1000.950000 +++ exited with 0 +++\n'}


def selftest(tmpdir):
    """Returns a list of problems (empty = the checker flags the bad logs and keeps quiet on the good ones)."""
    os.makedirs(tmpdir, exist_ok=True)
    for n, text in _SELFTEST_LOGS.items():
        with open(os.path.join(tmpdir, n + ".log"), "w") as f:
            f.write(text)
    cfg = {"cache_root": "/w/home/.cache", "projects": ["/w/pa", "/w/pb"], "build_dirs": ["/w/pa/.build", "/w/pb/.build"],
           "atomic_classes": frozenset()}       # the interleaving rules are tested on an in-place writer

    def run(second, cwd, role):
        acts = [Actor("A", os.path.join(tmpdir, "a.log"), "/w/pa"), Actor("B", os.path.join(tmpdir, second + ".log"), cwd, role)]
        for a in acts:
            a.parse()
        r = check(acts, cfg)
        return sorted((f["rule"], f["class"]) for f in r["findings"]), r["stats"]

    problems = []
    got, st = run("b_bad", "/w/pb", "build")
    want = [("R1", "cache:std"), ("R1", "output"), ("R2a", "cache:std")]
    if got != want:
        problems.append(f"racing reader: expected {want}, got {got}")
    got, st = run("b_good", "/w/pa", "build")
    if got or st.get("flock_waited") != 1 or st.get("parse_errors"):
        problems.append(f"lock-ordered reader must be silent with one waited flock: {got} {st}")
    got, st = run("ls_bad", "/w/pa", "ls")
    if got != [("LS", "build:cache-ls:other")]:
        problems.append(f"blocking LS flock not flagged: {got}")
    got, st = run("ls_good", "/w/pa", "ls")
    if got or st.get("ls_flock_nonblocking") != 1:
        problems.append(f"non-blocking LS flock must be silent and counted: {got} {st}")
    # structural rule: the in-place writer alone is a non-atomic publish; a temp+rename writer is not
    cfg2 = dict(cfg, atomic_classes=ATOMIC_CLASSES)
    a = Actor("A", os.path.join(tmpdir, "a.log"), "/w/pa")
    a.parse()
    got = sorted((f["rule"], f["class"]) for f in check([a], cfg2)["findings"])
    if got != [("NP", "cache:std"), ("NP", "output")]:
        problems.append(f"in-place writer: expected nonatomic_publish for cache:std and output, got {got}")
    with open(os.path.join(tmpdir, "np_good.log"), "w") as f:
        f.write(_NP_GOOD)
    g = Actor("G", os.path.join(tmpdir, "np_good.log"), "/w/pa")
    g.parse()
    r = check([g], cfg2)
    if r["findings"] or r["stats"].get("writer_sessions") != 3 or g.parse_errors:
        problems.append(f"temp+rename writer must be silent: {r['findings']} {r['stats']}")
    return problems


_NP_GOOD = """100 1000.000000 execve("/x/veryl", ["veryl", "build"], 0x7ffe /* 10 vars */) = 0 <0.000100>
100 1000.100000 openat(AT_FDCWD</w/pa>, "/w/pa/.build/.tmpAbC123", O_RDWR|O_CREAT|O_EXCL|O_CLOEXEC, 0600) = 4</w/pa/.build/.tmpAbC123> <0.000020>
100 1000.100100 write(4</w/pa/.build/.tmpAbC123>, "# This file"..., 446) = 446 <0.000020>
100 1000.100200 fchmod(4</w/pa/.build/.tmpAbC123>, 0644) = 0 <0.000010>
100 1000.100300 renameat(AT_FDCWD</w/pa>, "/w/pa/.build/.tmpAbC123", AT_FDCWD</w/pa>, "/w/pa/.build/info.toml") = 0 <0.000020>
100 1000.100400 close(4</w/pa/.build/info.toml>) = 0 <0.000010>
100 1000.200000 openat(AT_FDCWD</w/pa>, "/w/pa/target/.tmpXyZ789", O_RDWR|O_CREAT|O_EXCL|O_CLOEXEC, 0600) = 4</w/pa/target/.tmpXyZ789> <0.000020>
100 1000.200100 write(4</w/pa/target/.tmpXyZ789>, "module a"..., 100) = 100 <0.000020>
100 1000.200300 renameat(AT_FDCWD</w/pa>, "/w/pa/target/.tmpXyZ789", AT_FDCWD</w/pa>, "/w/pa/target/a.sv") = 0 <0.000020>
100 1000.200400 close(4</w/pa/target/a.sv>) = 0 <0.000010>
100 1000.300000 mkdir("/w/home/.cache/veryl/std/.abcdef0123456789.partial", 0777) = 0 <0.000020>
100 1000.300100 openat(AT_FDCWD</w/pa>, "/w/home/.cache/veryl/std/.abcdef0123456789.partial/fifo.veryl", O_WRONLY|O_CREAT|O_TRUNC|O_CLOEXEC, 0666) = 5</w/home/.cache/veryl/std/.abcdef0123456789.partial/fifo.veryl> <0.000020>
100 1000.300200 write(5</w/home/.cache/veryl/std/.abcdef0123456789.partial/fifo.veryl>, "pub module fifo"..., 1000) = 1000 <0.000020>
100 1000.300300 close(5</w/home/.cache/veryl/std/.abcdef0123456789.partial/fifo.veryl>) = 0 <0.000010>
100 1000.300400 rename("/w/home/.cache/veryl/std/.abcdef0123456789.partial", "/w/home/.cache/veryl/std/abcdef0123456789") = 0 <0.000020>
100 1000.900000 +++ exited with 0 +++
"""


def signature(f, scenario):
    return f"{f['kind']}:{scenario}:{f['class']}"


def main(argv):
    """strace_check.py --cache <dir> --project <dir> [--project <dir>] name=log[:cwd[:role]] ..."""
    if argv and argv[0] == "--selftest":
        import tempfile
        with tempfile.TemporaryDirectory() as d:
            p = selftest(d)
        print("strace_check selftest:", "ok" if not p else p)
        return 1 if p else 0
    cfg = {"projects": [], "build_dirs": []}
    actors = []
    i = 0
    while i < len(argv):
        a = argv[i]
        if a == "--cache":
            cfg["cache_root"] = norm(argv[i + 1]); i += 2
        elif a == "--project":
            p = norm(argv[i + 1]); cfg["projects"].append(p); cfg["build_dirs"].append(p + "/.build"); i += 2
        else:
            name, _, rest = a.partition("=")
            parts = rest.split(":")
            actors.append(Actor(name, parts[0], parts[1] if len(parts) > 1 and parts[1] else "/", parts[2] if len(parts) > 2 else "build"))
            i += 1
    for a in actors:
        a.parse()
    res = check(actors, cfg)
    print(json.dumps(res, indent=1, default=str))
    return 1 if res["findings"] else 0


if __name__ == "__main__":
    sys.exit(main(sys.argv[1:]))
