#!/usr/bin/env python3
"""C31 -- Dependency resolution is deterministic and picks the best version.

Runtime monitor: DepUniverseGen builds local git repositories with published releases
(vdeps.py), a root project declares direct / transitive / aliased / diamond / path dependencies,
the *real* CLI (`veryl update`, `veryl build`, `veryl check`) resolves them with a private
HOME/cache, and an independent reference (semverref.py + the walk in `verify_lock`) judges
Veryl.lock:

  * every declaration reached from the root resolves to an acceptable release: a release that
    was locked before and still satisfies the requirement, else the highest published release
    that does (`veryl update`: always the highest);  revisions are the published ones; no lock
    entry is unreachable;
  * all lock names are distinct, direct dependencies keep their declared key;
  * re-running the command leaves Veryl.lock byte-identical; `veryl update` on unchanged
    declarations/releases reports nothing and writes nothing;
  * K fresh processes (no Veryl.lock) give the same lock table / the same bytes; builds with an
    unchanged Veryl.lock emit the same dependency directories and module prefixes;
  * history: a newer release published between runs is ignored by plain build/check and picked
    up by `veryl update` iff it is the best match; a changed requirement moves only that lock.
"""
import concurrent.futures
import hashlib
import json
import os
import re
import shutil
import sys
import tomllib
import traceback

sys.path.insert(0, os.path.dirname(os.path.abspath(__file__)))
from vcommon import Args, Run, Rng, veryl, panicked  # noqa: E402
import semverref  # noqa: E402
from vdeps import Repo, project_toml, GitError  # noqa: E402

PROP = "C31"

# ------------------------------------------------------------------------------------------
# DepUniverseGen
# ------------------------------------------------------------------------------------------

REQ_FORMS = ["exact", "caret3", "caret2", "caret_explicit", "tilde3", "tilde2", "wild1", "wild2", "star",
             "ge", "range", "le", "exact2"]


def make_req(rng, v, form=None):
    """A requirement (string) of the given form that `v` (triple) satisfies."""
    form = form or rng.pick(REQ_FORMS)
    a, b, c = v
    if form == "exact":
        return f"={a}.{b}.{c}", form
    if form == "exact2":
        return f"={a}.{b}", form
    if form == "caret3":
        return f"{a}.{b}.{c}", form
    if form == "caret2":
        return f"{a}.{b}", form
    if form == "caret_explicit":
        return f"^{a}.{b}.{c}", form
    if form == "tilde3":
        return f"~{a}.{b}.{c}", form
    if form == "tilde2":
        return f"~{a}.{b}", form
    if form == "wild1":
        return f"{a}.*", form
    if form == "wild2":
        return f"{a}.{b}.*", form
    if form == "star":
        return "*", form
    if form == "ge":
        return f">={a}.{b}.{c}", form
    if form == "range":
        return f">={a}.{b}.{c}, <{a + 1}.0.0", form
    if form == "le":
        return f"<={a}.{b}.{c}", form
    raise ValueError(form)


def bump(rng, v, kind=None):
    kind = kind or rng.pick(["patch", "patch", "minor", "minor", "major"])
    a, b, c = v
    if kind == "patch":
        return (a, b, c + 1)
    if kind == "minor":
        return (a, b + 1, 0)
    return (a + 1, 0, 0)


def gen_versions(rng, n):
    v = rng.pick([(0, 1, 0), (0, 0, 1), (1, 0, 0), (0, 2, 0), (1, 2, 3)])
    out = [v]
    while len(out) < n:
        v = bump(rng, max(out))
        out.append(v)
    # publish order is not always ascending: sometimes a back-port is published last
    if len(out) >= 2 and rng.chance(1, 4):
        base = out[rng.below(len(out) - 1)]
        bp = (base[0], base[1], base[2] + 1)
        while bp in out:
            bp = (bp[0], bp[1], bp[2] + 1)
        if bp < max(out):
            out.append(bp)
    return out


def gen_spec(rng, aimed=False):
    libs = []
    if aimed:
        # two different repositories that both hold a project named `common`, each reached
        # through a different direct dependency under the same key (DESIGN section 8 hypothesis)
        for i in range(2):
            vs = gen_versions(rng, rng.range(1, 3))
            libs.append({"dir": f"r{i}", "project": "common",
                         "releases": [{"version": semverref.fmt(v), "deps": [], "phase": 0} for v in vs]})
        for i in range(2, 4):
            t = i - 2
            tv = semverref.parse_version(rng.pick(libs[t]["releases"])["version"])
            req, form = make_req(rng, tv)
            vs = gen_versions(rng, rng.range(1, 2))
            libs.append({"dir": f"r{i}", "project": f"lib{i}",
                         "releases": [{"version": semverref.fmt(v), "phase": 0,
                                       "deps": [{"key": "common", "lib": t, "req": req, "form": form}]} for v in vs]})
        root_deps = []
        for i in (2, 3):
            tv = semverref.parse_version(rng.pick(libs[i]["releases"])["version"])
            req, form = make_req(rng, tv)
            root_deps.append({"key": f"lib{i}", "lib": i, "req": req, "form": form})
        spec = {"kind": "aimed", "libs": libs, "root": {"deps": root_deps, "path_dep": None}}
    else:
        n = rng.range(3, 6)
        alias_pool = ["util", "core"]
        for i in range(n):
            project = f"lib{i}"
            if i > 0 and rng.chance(1, 5):
                project = libs[rng.below(i)]["project"]        # another repo with the same project name
            vs = gen_versions(rng, rng.range(1, 4))
            deps = []
            if i > 0:
                k = rng.pick([0, 1, 1, 2, 2]) if i > 1 else rng.pick([0, 1, 1])
                targets = list(range(i))
                rng.shuffle(targets)
                for t in targets[:k]:
                    key = libs[t]["project"]
                    if rng.chance(1, 3):
                        key = rng.pick(alias_pool)
                    while key == project or any(d["key"] == key for d in deps):
                        key = key + "_x"
                    tv = semverref.parse_version(rng.pick(libs[t]["releases"])["version"])
                    req, form = make_req(rng, tv)
                    deps.append({"key": key, "lib": t, "req": req, "form": form})
            rels = []
            for j, v in enumerate(vs):
                d = [dict(x) for x in deps]
                if j > 0 and d and rng.chance(1, 4):
                    # a later release changes one requirement
                    x = rng.pick(d)
                    tv = semverref.parse_version(rng.pick(libs[x["lib"]]["releases"])["version"])
                    x["req"], x["form"] = make_req(rng, tv)
                rels.append({"version": semverref.fmt(v), "deps": d, "phase": 0})
            libs.append({"dir": f"r{i}", "project": project, "releases": rels})
        # root: direct dependencies on distinct libs, biased to the upper (more transitive) ones
        order = list(range(n))
        rng.shuffle(order)
        k = rng.range(1, min(3, n))
        chosen = sorted(order[:k])
        if (n - 1) not in chosen and rng.chance(2, 3):
            chosen[-1] = n - 1
        root_deps = []
        for t in sorted(set(chosen)):
            key = libs[t]["project"]
            if rng.chance(1, 4):
                key = f"alias{t}"
            while any(d["key"] == key for d in root_deps):
                key = key + "_r"
            tv = semverref.parse_version(rng.pick(libs[t]["releases"])["version"])
            req, form = make_req(rng, tv)
            root_deps.append({"key": key, "lib": t, "req": req, "form": form})
        path_dep = None
        if rng.chance(1, 3):
            pd = []
            if rng.chance(2, 3):
                t = rng.below(n)
                tv = semverref.parse_version(rng.pick(libs[t]["releases"])["version"])
                req, form = make_req(rng, tv)
                pd.append({"key": libs[t]["project"], "lib": t, "req": req, "form": form})
            path_dep = {"key": "localp", "deps": pd}
        spec = {"kind": "random", "libs": libs, "root": {"deps": root_deps, "path_dep": path_dep}}

    # history: releases published between runs (phase 1)
    hist = []
    nl = len(spec["libs"])
    cand = list(range(nl))
    rng.shuffle(cand)
    for t in cand[: rng.range(1, 2)]:
        lib = spec["libs"][t]
        have = [semverref.parse_version(r["version"]) for r in lib["releases"]]
        kind = rng.pick(["newer_patch", "newer_minor", "newer_major", "backport"])
        if kind == "backport":
            base = min(have)
            v = (base[0], base[1], base[2] + 1)
            while v in have:
                v = (v[0], v[1], v[2] + 1)
        else:
            v = bump(rng, max(have), kind.split("_")[1])
        last = lib["releases"][-1]
        lib["releases"].append({"version": semverref.fmt(v), "deps": [dict(x) for x in last["deps"]], "phase": 1,
                                "hist_kind": kind})
        hist.append({"lib": t, "version": semverref.fmt(v), "kind": kind})
    spec["history"] = hist
    # declaration change: one root requirement moves to another published release
    d = rng.pick(spec["root"]["deps"])
    lib = spec["libs"][d["lib"]]
    tv = semverref.parse_version(rng.pick(lib["releases"])["version"])
    req, form = make_req(rng, tv, rng.pick(["exact", "tilde3", "caret3", "exact"]))
    spec["decl_change"] = {"key": d["key"], "req": req, "form": form}
    return spec


# ------------------------------------------------------------------------------------------
# materialise a universe on disk
# ------------------------------------------------------------------------------------------

class Universe:
    def __init__(self, spec, workdir):
        self.spec = spec
        self.dir = workdir
        self.home = os.path.join(workdir, "home")
        self.repos_dir = os.path.join(workdir, "repos")
        os.makedirs(self.home)
        os.makedirs(self.repos_dir)
        self.repos = []
        self.revs = []               # per lib: {version: revision}
        self.published = []          # per lib: [version] currently in Veryl.pub
        for lib in spec["libs"]:
            self.repos.append(Repo(self.repos_dir, lib["dir"], lib["project"]))
            self.revs.append({})
            self.published.append([])
        # releases of phase 0 in an order compatible with dependencies (lower index first)
        for i, lib in enumerate(spec["libs"]):
            for rel in lib["releases"]:
                if rel["phase"] == 0:
                    self.publish(i, rel)
        self.root = os.path.join(workdir, "rootprj")
        os.makedirs(os.path.join(self.root, "src"))
        if spec["root"]["path_dep"] is not None:
            pd = spec["root"]["path_dep"]
            lp = os.path.join(workdir, "localp")
            os.makedirs(os.path.join(lp, "src"))
            with open(os.path.join(lp, "Veryl.toml"), "w") as f:
                f.write(project_toml("localp", "0.1.0", self.dep_list(pd["deps"])))
            with open(os.path.join(lp, "src", "m.veryl"), "w") as f:
                f.write(self.module_text("M_localp", pd["deps"], "local"))
        self.write_root(spec["root"]["deps"])

    def url(self, i):
        return self.repos[i].url

    def dep_list(self, deps):
        out = []
        for d in deps:
            e = {"git": self.url(d["lib"]), "version": d["req"]}
            if d["key"] != self.spec["libs"][d["lib"]]["project"]:
                e["project"] = self.spec["libs"][d["lib"]]["project"]
            out.append((d["key"], e))
        return out

    def module_text(self, name, deps, tag):
        body = "".join(f"    inst u{j}: {d['key']}::M_{self.spec['libs'][d['lib']]['dir']};\n" for j, d in enumerate(deps))
        return f"// {tag}\npub module {name} {{\n{body}}}\n"

    def publish(self, i, rel):
        lib = self.spec["libs"][i]
        rev = self.repos[i].release(rel["version"], self.dep_list(rel["deps"]),
                                    {"src/m.veryl": self.module_text(f"M_{lib['dir']}", rel["deps"], rel["version"])})
        self.revs[i][rel["version"]] = rev
        self.published[i].append(rel["version"])

    def write_root(self, deps):
        dl = self.dep_list(deps)
        alld = list(deps)
        if self.spec["root"]["path_dep"] is not None:
            dl.append(("localp", {"path": "../localp"}))
        with open(os.path.join(self.root, "Veryl.toml"), "w") as f:
            f.write(project_toml("rootprj", "0.1.0", dl))
        body = "".join(f"    inst u{j}: {d['key']}::M_{self.spec['libs'][d['lib']]['dir']};\n" for j, d in enumerate(alld))
        if self.spec["root"]["path_dep"] is not None:
            body += "    inst up: localp::M_localp;\n"
        with open(os.path.join(self.root, "src", "top.veryl"), "w") as f:
            f.write(f"module Top {{\n{body}}}\n")

    def release_deps(self, i, version):
        for rel in self.spec["libs"][i]["releases"]:
            if rel["version"] == version:
                return rel["deps"]
        return None

    def lib_of_url(self, url):
        for i, r in enumerate(self.repos):
            if r.url == url:
                return i
        return None


# ------------------------------------------------------------------------------------------
# reference: verify a lock table against the declarations and the published releases
# ------------------------------------------------------------------------------------------

def sid(src):
    if isinstance(src, str):
        return ("path", src)
    return ("repo", src.get("url"), src.get("project"), src.get("version"), src.get("revision"))


def canon_table(projects):
    out = []
    for p in projects:
        deps = sorted((d["name"], sid(d["source"])) for d in p.get("dependencies", []))
        out.append((p["name"], sid(p["source"]), tuple(deps), tuple(sorted((p.get("properties") or {}).items()))))
    return sorted(out)


def sources_only(projects):
    return sorted(sid(p["source"]) for p in projects)


def load_lock(path):
    with open(path, "rb") as f:
        raw = f.read()
    return raw, tomllib.loads(raw.decode("utf-8")).get("projects", [])


def verify_lock(u, projects, root_deps, prev_projects, mode, stats):
    """Returns a list of (kind, text). mode: 'normal' (locked-if-still-matching) or 'update' (always best)."""
    problems = []
    names = [p["name"] for p in projects]
    if len(set(names)) != len(names):
        problems.append(("names:duplicate", f"lock names are not distinct: {sorted(names)}"))
    by_name = {}
    for p in projects:
        by_name.setdefault(p["name"], []).append(p)
    by_sid = {}
    for p in projects:
        by_sid.setdefault(sid(p["source"]), []).append(p)
    prev_locked = {}
    for p in (prev_projects or []):
        s = p["source"]
        if not isinstance(s, str):
            prev_locked.setdefault((s["url"], s["project"]), set()).add(s["version"])

    visited = set()
    queue = []
    for d in root_deps:
        queue.append((None, d))
    has_path = u.spec["root"]["path_dep"] is not None
    if has_path:
        ents = by_name.get("localp", [])
        if len(ents) != 1 or sid(ents[0]["source"]) != ("path", "../localp"):
            problems.append(("ref:path-entry", f"path dependency `localp` not locked as ../localp: {[e['source'] for e in ents]}"))
        else:
            visited.add(id(ents[0]))
            for d in u.spec["root"]["path_dep"]["deps"]:
                queue.append((ents[0], d))
            stats["path_deps_verified"] = stats.get("path_deps_verified", 0) + 1

    steps = 0
    while queue and steps < 10_000:
        steps += 1
        parent, d = queue.pop(0)
        lib = d["lib"]
        url, project, req = u.url(lib), u.spec["libs"][lib]["project"], d["req"]
        where = "root" if parent is None else f"`{parent['name']}`"
        if parent is None:
            ents = by_name.get(d["key"], [])
            if len(ents) != 1:
                problems.append(("ref:direct-name", f"direct dependency `{d['key']}` has {len(ents)} lock entries named after it"))
                continue
            src = ents[0]["source"]
        else:
            links = [x for x in parent.get("dependencies", []) if x["name"] == d["key"]]
            if len(links) != 1:
                problems.append(("ref:dep-link", f"{where} should list dependency `{d['key']}` once, lists {len(links)}"))
                continue
            src = links[0]["source"]
        if isinstance(src, str) or src.get("url") != url or src.get("project") != project:
            problems.append(("ref:wrong-source", f"{where}.{d['key']}: expected {project} @ {url}, lock has {src}"))
            continue
        published = u.published[lib]
        best = semverref.best(req, published)
        locked_ok = sorted(v for v in prev_locked.get((url, project), ()) if semverref.matches(req, v))
        if mode == "update" or not locked_ok:
            acceptable = {best} if best else set()
            why = "highest published match"
        else:
            acceptable = set(locked_ok)
            why = "previously locked and still matching"
        stats["decls_verified"] = stats.get("decls_verified", 0) + 1
        stats.setdefault("forms", set()).add(d.get("form", "?"))
        if src.get("version") not in acceptable:
            problems.append(("ref:version", f"{where}.{d['key']} = \"{req}\" on {project}: lock has {src.get('version')}, "
                             f"expected {sorted(acceptable)} ({why}; published {published}, previously locked "
                             f"{sorted(prev_locked.get((url, project), ()))})"))
            continue
        if locked_ok and mode == "normal":
            stats["kept_locked"] = stats.get("kept_locked", 0) + 1
            if best and best not in acceptable:
                stats["kept_locked_although_newer"] = stats.get("kept_locked_although_newer", 0) + 1
        want_rev = u.revs[lib].get(src["version"])
        if src.get("revision") != want_rev:
            problems.append(("ref:revision", f"{where}.{d['key']}: {project} {src['version']} locked at revision "
                             f"{src.get('revision')}, published revision is {want_rev}"))
            continue
        ents = by_sid.get(sid(src), [])
        if not ents:
            problems.append(("ref:missing-entry", f"{where}.{d['key']} -> {project} {src['version']} has no [[projects]] entry"))
            continue
        ent = ents[0]
        if parent is None:
            ent = by_name[d["key"]][0]
        if id(ent) in visited:
            continue
        visited.add(id(ent))
        for e in ents:
            visited.add(id(e))
        rdeps = u.release_deps(lib, src["version"])
        if len(ent.get("dependencies", [])) != len(rdeps):
            problems.append(("ref:dep-count", f"`{ent['name']}` ({project} {src['version']}) declares {len(rdeps)} dependencies, "
                             f"lock lists {len(ent.get('dependencies', []))}"))
        for dd in rdeps:
            queue.append((ent, dd))
    for p in projects:
        if id(p) not in visited:
            problems.append(("ref:extraneous-entry", f"lock entry `{p['name']}` ({p['source']}) is not reachable from the declarations"))
    return problems


def collision_class(u, projects):
    """Input class for signatures: does the universe contain *namesakes* -- one dependency name wanted for two
    different sources, or one source wanted under two different names (all edges, root included)?  Only then
    can the traversal order of gen_locks influence which entry gets which (suffixed) name."""
    by_name, by_src = {}, {}
    direct = {d["key"] for d in u.spec["root"]["deps"]} | ({"localp"} if u.spec["root"]["path_dep"] else set())
    for p in projects:
        if p["name"] in direct:
            by_name.setdefault(p["name"], set()).add(sid(p["source"]))
            by_src.setdefault(sid(p["source"]), set()).add(p["name"])
        for d in p.get("dependencies", []):
            by_name.setdefault(d["name"], set()).add(sid(d["source"]))
            by_src.setdefault(sid(d["source"]), set()).add(d["name"])
    return any(len(v) >= 2 for v in by_name.values()) or any(len(v) >= 2 for v in by_src.values())


# ------------------------------------------------------------------------------------------
# running one universe
# ------------------------------------------------------------------------------------------

MOD_LINE = re.compile(r"^\s*(?:module|interface|package)\s+([A-Za-z_][A-Za-z0-9_$]*)", re.M)


def emitted_prefixes(root):
    out = []
    base = os.path.join(root, "dependencies")
    for dp, dn, fn in os.walk(base):
        dn.sort()
        for f in sorted(fn):
            if f.endswith(".sv"):
                p = os.path.join(dp, f)
                try:
                    text = open(p, encoding="utf-8", errors="replace").read()
                except OSError:
                    text = ""
                out.append([os.path.relpath(p, root), MOD_LINE.findall(text)])
    return out


def clean_outputs(root):
    for d in ("dependencies", "target", ".build"):
        shutil.rmtree(os.path.join(root, d), ignore_errors=True)
    for f in os.listdir(root):
        if f.endswith(".f"):
            os.remove(os.path.join(root, f))


MODIF = re.compile(r"(Adding|Removing) dependency")


class CaseResult:
    def __init__(self):
        self.violations = []     # (signature, what, extra)
        self.stats = {}
        self.sets = {}
        self.inconclusive = []
        self.sample = None
        self.nontrivial = None

    def count(self, k, n=1):
        self.stats[k] = self.stats.get(k, 0) + n

    def seen(self, s, m):
        self.sets.setdefault(s, set()).add(m)


def run_universe(spec, workdir, k_fresh, k_build, sabotage=None):
    res = CaseResult()
    shutil.rmtree(workdir, ignore_errors=True)
    os.makedirs(workdir)
    try:
        u = Universe(spec, workdir)
    except GitError as e:
        res.inconclusive.append(f"git failed while building the universe: {e}")
        return res
    root, home = u.root, u.home
    lockp = os.path.join(root, "Veryl.lock")
    vstats = {}
    cls = {"c": "plain", "m": "singledep"}

    def sig(kind):
        # failure kind + input class (never paths / versions / universe numbers)
        if kind.startswith("fresh:bytes-differ-order-only"):
            return f"{kind}:{cls['m']}"
        return f"{kind}:{cls['c']}"

    def cli(args):
        code, out, err = veryl(args, cwd=root, home=home, timeout=900)
        res.count("cli_runs")
        if code is None:
            res.inconclusive.append(f"veryl {' '.join(args)} timed out")
        elif panicked(err, code):
            res.violations.append((f"panic:{args[0]}", f"veryl {args[0]} panicked: {err[-600:]}", {}))
        return code, out, err

    def verify(tag, prev, mode, rdeps):
        raw, projects = load_lock(lockp)
        if sabotage == "lock_version" and tag == "fresh":
            # sensitivity self-test: pretend the tool locked a different version
            for p in projects:
                if not isinstance(p["source"], str):
                    p["source"]["version"] = "9.9.9"
                    break
        problems = verify_lock(u, projects, rdeps, prev, mode, vstats)
        res.count("locks_verified")
        for kind, text in problems:
            res.violations.append((sig(f"{kind}@{tag}"), f"[{tag}] {text}", {"lock": raw.decode("utf-8", "replace")}))
        return raw, projects

    rdeps = spec["root"]["deps"]

    # ---- P0: K fresh processes -----------------------------------------------------------
    variants = {}
    for k in range(k_fresh):
        if os.path.exists(lockp):
            os.remove(lockp)
        cmd = ["update"] if k % 2 == 0 else ["check"]
        code, out, err = cli(cmd)
        if code != 0 or not os.path.exists(lockp):
            if k == 0:
                res.inconclusive.append(f"fresh `veryl {cmd[0]}` failed (exit {code}): {err[-500:]}")
                res.count("universes_unresolvable")
                return res
            if not os.path.exists(lockp):
                res.inconclusive.append(f"fresh process #{k} `veryl {cmd[0]}` wrote no Veryl.lock (exit {code}): {err[-300:]}")
                continue
            res.count("fresh_check_failed_after_lock")
        raw, projects = load_lock(lockp)
        res.count("fresh_processes")
        variants.setdefault(raw, (projects, k))
    all_projects = [v[0] for v in variants.values()]
    if any(collision_class(u, p) for p in all_projects):
        cls["c"] = "namesake"
        res.count("universes_with_namesakes")
    if any(len(p.get("dependencies", [])) >= 2 for pr in all_projects for p in pr):
        cls["m"] = "multidep"
    canon = {json.dumps(canon_table(p), default=str) for p in all_projects}
    if len(canon) > 1:
        srcs = {json.dumps(sources_only(p)) for p in all_projects}
        kind = "fresh:names-differ" if len(srcs) == 1 else "fresh:resolution-differs"
        tabs = [[(p["name"], sid(p["source"])[1:4]) for p in pr] for pr in all_projects[:2]]
        res.violations.append((sig(kind), f"{k_fresh} fresh processes (no Veryl.lock) produced {len(canon)} different lock tables, "
                               f"e.g. {tabs[0]} vs {tabs[1]}", {"locks": [r.decode() for r in list(variants)[:2]]}))
    elif len(variants) > 1:
        res.violations.append((sig("fresh:bytes-differ-order-only"), f"{k_fresh} fresh processes produced the same lock table but "
                               f"{len(variants)} different Veryl.lock byte strings (ordering of entries differs)",
                               {"locks": [r.decode() for r in list(variants)[:2]]}))
    if len(variants) == 1:
        res.count("fresh_sets_identical")

    # ---- P1: reference check of the (last) fresh lock --------------------------------------
    raw0, proj0 = verify("fresh", None, "normal", rdeps)
    nlocks = len(proj0)
    res.count("lock_entries", nlocks)
    if any(isinstance(p["source"], str) for p in proj0):
        res.seen("dep_kinds", "path")
    if any(p["name"] not in {d["key"] for d in rdeps} | {"localp"} for p in proj0):
        res.seen("dep_kinds", "transitive")
    if any(d["key"] != spec["libs"][d["lib"]]["project"] for d in rdeps):
        res.seen("dep_kinds", "aliased_direct")
    if any(re.search(r"_\d+$", p["name"]) for p in proj0):
        res.seen("dep_kinds", "suffixed_name")
    refs = {}
    for p in proj0:
        for d in p.get("dependencies", []):
            refs.setdefault(sid(d["source"]), set()).add(p["name"])
    if any(len(v) >= 2 for v in refs.values()):
        res.seen("dep_kinds", "diamond")
    pn = {}
    for p in proj0:
        if not isinstance(p["source"], str):
            pn.setdefault(p["source"]["project"], set()).add(p["source"]["url"])
    if any(len(v) >= 2 for v in pn.values()):
        res.seen("dep_kinds", "same_project_name_two_repos")
    pv = {}
    for p in proj0:
        if not isinstance(p["source"], str):
            pv.setdefault((p["source"]["url"], p["source"]["project"]), set()).add(p["source"]["version"])
    if any(len(v) >= 2 for v in pv.values()):
        res.seen("dep_kinds", "two_versions_of_one_project")
    res.seen("dep_kinds", "direct")

    # ---- P2: builds with the lock kept: stability + emitted prefixes -------------------------
    emitted = {}
    for k in range(k_build):
        clean_outputs(root)
        code, out, err = cli(["build"])
        raw, _ = load_lock(lockp)
        if raw != raw0:
            res.violations.append((sig("stable:build-rewrote-lock"), "`veryl build` with unchanged declarations and releases changed "
                                   "Veryl.lock", {"before": raw0.decode(), "after": raw.decode()}))
            raw0 = raw
        else:
            res.count("rerun_lock_byte_identical")
        if code == 0:
            res.count("builds_ok")
            em = emitted_prefixes(root)
            emitted.setdefault(json.dumps(em), k)
        else:
            res.count("builds_failed")
            res.stats.setdefault("build_fail_samples", [])
            if len(res.stats["build_fail_samples"]) < 2:
                res.stats["build_fail_samples"].append(err[-400:])
    if len(emitted) > 1:
        a, b = list(emitted)[:2]
        res.violations.append((sig("prefix:differs-across-processes"), f"{k_build} `veryl build` processes with the same Veryl.lock emitted "
                               f"different dependency directories / module prefixes: {a[:300]} vs {b[:300]}",
                               {"lock": raw0.decode(), "emitted": [json.loads(a), json.loads(b)]}))
    res.count("prefix_comparisons", max(0, res.stats.get("builds_ok", 0) - 1))

    # ---- P3: update with nothing changed ---------------------------------------------------
    code, out, err = cli(["update"])
    raw, _ = load_lock(lockp)
    if code == 0:
        if MODIF.search(err) or MODIF.search(out) or raw != raw0:
            res.violations.append((sig("stable:update-modified"), "`veryl update` with unchanged declarations and releases reported/made a "
                                   f"modification: {[l for l in err.splitlines() if MODIF.search(l)][:4]} bytes_changed={raw != raw0}",
                                   {"before": raw0.decode(), "after": raw.decode()}))
        else:
            res.count("update_noop_confirmed")
    raw0, proj0 = verify("update-unchanged", proj0, "update", rdeps)

    # ---- P4: history -- new releases appear --------------------------------------------------
    for h in spec["history"]:
        lib = spec["libs"][h["lib"]]
        rel = [r for r in lib["releases"] if r["version"] == h["version"]][0]
        u.publish(h["lib"], rel)
        res.seen("history_kinds", h["kind"])
    cmd = ["build"]
    clean_outputs(root)
    code, out, err = cli(cmd)
    raw, proj = load_lock(lockp)
    if raw != raw0:
        res.violations.append((sig("history:plain-build-moved-lock"), "a newer release was published; plain `veryl build` changed Veryl.lock "
                               f"(history {spec['history']})", {"before": raw0.decode(), "after": raw.decode()}))
    else:
        res.count("plain_build_kept_lock")
    verify("history-build", proj0, "normal", rdeps)
    prev = proj
    code, out, err = cli(["update"])
    raw1, proj1 = verify("history-update", prev, "update", rdeps)
    moved = json.dumps(canon_table(proj1), default=str) != json.dumps(canon_table(prev), default=str)
    if moved:
        res.count("update_moved_lock")
    else:
        res.count("update_kept_lock")
        if code == 0 and (MODIF.search(err) or raw1 != raw):
            res.violations.append((sig("history:update-modified-without-change"), "`veryl update` reported/made a modification although the "
                                   "resulting lock table equals the previous one", {"before": raw.decode(), "after": raw1.decode()}))
    code, out, err = cli(["update"])
    raw2, _ = load_lock(lockp)
    if code == 0 and (MODIF.search(err) or raw2 != raw1):
        res.violations.append((sig("stable:second-update-modified"), "a second `veryl update` right after the first reported/made a "
                               "modification", {"before": raw1.decode(), "after": raw2.decode()}))
    else:
        res.count("update_noop_confirmed")

    # ---- P5: a root requirement changes -------------------------------------------------------
    ch = spec["decl_change"]
    new_rdeps = [dict(d) for d in rdeps]
    for d in new_rdeps:
        if d["key"] == ch["key"]:
            d["req"], d["form"] = ch["req"], ch["form"]
    u.write_root(new_rdeps)
    _, prevp = load_lock(lockp)
    code, out, err = cli(["check"])
    if code == 0:
        verify("decl-change", prevp, "normal", new_rdeps)
        res.count("decl_changes_verified")
    else:
        res.count("decl_change_run_failed")

    for k, v in vstats.items():
        if isinstance(v, set):
            for m in v:
                res.seen("requirement_forms", m)
        else:
            res.count(k, v)
    res.nontrivial = json.dumps([[l["project"], [[r["version"], r["deps"]] for r in l["releases"]]] for l in spec["libs"]]
                                + [spec["root"]], sort_keys=True, default=str)
    res.sample = {"kind": spec["kind"], "root_deps": [(d["key"], spec["libs"][d["lib"]]["project"], d["req"]) for d in rdeps],
                  "path_dep": spec["root"]["path_dep"] is not None,
                  "libs": [{"project": l["project"], "releases": [r["version"] for r in l["releases"]],
                            "deps": [(d["key"], spec["libs"][d["lib"]]["project"], d["req"]) for d in l["releases"][0]["deps"]]}
                           for l in spec["libs"]],
                  "history": spec["history"], "decl_change": spec["decl_change"],
                  "fresh_lock": [(p["name"], (p["source"] if isinstance(p["source"], str) else
                                              f"{p['source']['project']}@{p['source']['version']}")) for p in proj0]}
    return res


# ------------------------------------------------------------------------------------------

def main():
    args = Args()
    args.prop = args.prop or PROP
    run = Run(args, "exploration",
              "DepUniverseGen: 3-6 local git repositories with 1-5 published releases each (ascending and back-ported), "
              "requirements in 13 syntactic forms, direct/transitive/aliased/diamond/path dependencies, repositories sharing a "
              "project name; plus 'aimed' universes (two repos both named `common` reached through sibling dependencies). "
              "A universe is non-trivial when it resolved (fresh lock written) and has >=2 lock entries; distinct = distinct "
              "(libs, releases, requirements, root declarations).")
    run.assume("semverref.py models VersionReq::matches for release versions (no pre-releases); validated by its self-test table")
    run.assume("git CLI builds the repositories; every release commit is followed by a publish commit appending to Veryl.pub")
    run.assume("the generator's per-release dependency tables are what the release commits contain (they are written from them)")
    bad = semverref.selftest()
    if bad:
        run.inconclusive(f"semverref self-test failed: {bad[:3]}")
        run.finish([])
    n = args.budget("universes", 25, 300)
    k_fresh = args.budget("k_fresh", 3, 4)
    k_fresh_aimed = args.budget("k_fresh_aimed", 8, 12)
    k_build = args.budget("k_build", 2, 3)
    k_build_aimed = args.budget("k_build_aimed", 4, 8)
    jobs = int(args.extra.get("jobs", 4 if not args.thorough() else 8))
    sabotage = args.extra.get("sabotage")
    base = run.scratch()

    cases = []
    if args.replay:
        rp = json.load(open(args.replay))
        cases.append((0, rp["case"]["spec"]))
    else:
        for i in range(n):
            rng = Rng.for_case(args.seed, PROP, i)
            aimed = (i % 5 == 0)
            cases.append((i, gen_spec(rng, aimed=aimed)))

    def work(item):
        i, spec = item
        wd = os.path.join(base, f"u{i}")
        try:
            aimed = spec["kind"] == "aimed"
            r = run_universe(spec, wd, k_fresh_aimed if aimed else k_fresh, k_build_aimed if aimed else k_build, sabotage)
        except Exception:
            r = CaseResult()
            r.inconclusive.append("harness error: " + traceback.format_exc()[-800:])
        finally:
            if not os.environ.get("VERIF_KEEP_SCRATCH"):
                shutil.rmtree(wd, ignore_errors=True)
        return i, spec, r

    with concurrent.futures.ThreadPoolExecutor(max_workers=jobs) as ex:
        for i, spec, r in ex.map(work, cases):
            run.eval()
            run.count("universes")
            run.count("universes_" + spec["kind"])
            for k, v in r.stats.items():
                if isinstance(v, list):
                    for s in v:
                        run.note(f"build failed in universe {i}: {s}")
                else:
                    run.count(k, v)
            for s, members in r.sets.items():
                for m in members:
                    run.seen(s, m)
            for reason in r.inconclusive:
                run.count("universes_inconclusive")
                run.note(f"universe {i}: {reason}")
            if r.nontrivial is not None and r.stats.get("lock_entries", 0) >= 2:
                run.nontrivial(r.nontrivial)
            if r.sample is not None:
                run.sample(r.sample)
            for signature, what, extra in r.violations:
                run.violation(signature, what, {"spec": spec, "universe_index": i, "details": extra})

    # too many unresolvable universes would make the run vacuous
    if run.counters.get("universes_inconclusive", 0) * 4 > max(1, run.counters.get("universes", 0)):
        run.inconclusive(f"{run.counters.get('universes_inconclusive')} of {run.counters.get('universes')} universes could not be judged")
    scale = max(1, n) / 25.0 if not args.replay else 0.04
    floors = [("universes", int(20 * scale)), ("distinct_nontrivial", int(12 * scale)), ("decls_verified", int(150 * scale)),
              ("locks_verified", int(80 * scale)), ("fresh_processes", int(60 * scale)), ("builds_ok", int(30 * scale)),
              ("update_noop_confirmed", int(15 * scale)), ("plain_build_kept_lock", int(12 * scale)),
              ("update_moved_lock", int(2 * scale)), ("kept_locked", int(40 * scale)),
              ("requirement_forms", 8 if n >= 20 else 1), ("dep_kinds", 5 if n >= 20 else 1)]
    run.finish(floors)


if __name__ == "__main__":
    main()
