#!/usr/bin/env python3
"""C24 - Build results do not depend on file order or the run.

Runtime monitor over the real CLI (differential, the code against itself across a dimension that must not
matter).  One case = one generated project universe (projgen2), always rebuilt from scratch in the *same*
directory so absolute paths are equal and outputs can be compared byte for byte without normalisation:

  (b) repeat:  K fresh processes of `veryl build` (+ `veryl check` for the diagnostics): every file the build
      leaves behind - emitted .sv, .sv.map, bundle, filelist, Veryl.lock - must be byte-identical, exit
      codes and the diagnostic multiset equal.  Each process has its own HashMap RandomState.
  (a) order:   P permutations of the root project's files given as explicit arguments
      (`veryl build f3 f1 f2`, the order really used is read back from the `Processing file` log lines):
      emitted .sv / .sv.map / Veryl.lock byte-identical to the reference build, diagnostic *multiset*
      (records parsed from miette's report of `veryl check <same order>`) equal, exit codes equal; the
      filelist must name the same set of files and a bundle must consist of the same per-source chunks.
      Whether the *sequence* inside filelist / bundle may follow the argument order is left open by the
      property ("emitted files, source maps and the set of diagnostics"), so a pure re-ordering is counted
      in the evidence (order_filelist_reordered / order_bundle_reordered) and not reported.
"""
import difflib
import json
import os
import sys

sys.path.insert(0, os.path.dirname(os.path.abspath(__file__)))
from vcommon import Args, Run, Rng  # noqa: E402
import projgen2  # noqa: E402
import c2xlib as L  # noqa: E402


def make_case(seed, i, nperm):
    rng = Rng.for_case(seed, "C24", i)
    target = rng.pick(["directory", "directory", "directory", "source", "bundle"])
    root_opts = {"target": target, "sourcemap": rng.pick(["target", "target", "none", "directory"]),
                 "filelist": rng.pick(["absolute", "relative", "flgen"]), "std": rng.chance(1, 8),
                 "target_path": {"directory": "target", "bundle": "all.sv", "source": ""}[target],
                 "sourcemap_path": "maps"}
    opts = {"root_opts": root_opts, "nsources": rng.pick([1, 1, 2, 3]),
            "layout": rng.pick(["flat", "subdirs", "subdirs"]), "examples": False, "tests": True,
            "warnings": rng.chance(2, 3), "multi_item": rng.pick([0, 30, 50]),
            "deps": rng.pick([0, 0, 0, 1, 2, 2, 3]), "nfiles": rng.range(6, 8),
            # every construct whose resolution walks a hash map of symbols: default-direction modports, mixin
            # interfaces across files, generic interfaces / packages instantiated from several files, enum values
            # taken from another file's package
            "hash_shapes": True}
    u = projgen2.gen_universe(rng.fork(), opts)
    case = L.case_from_universe(u)
    case["index"] = i
    files = [f["path"] for f in case["files"] if f["root"] and not f["example"]]
    perms, seen = [], {tuple(sorted(files))}
    for _ in range(nperm * 6):
        if len(perms) >= nperm:
            break
        p = list(files)
        rng.shuffle(p)
        if tuple(p) not in seen:
            seen.add(tuple(p))
            perms.append(p)
    rev = sorted(files, reverse=True)
    if perms and tuple(rev) not in [tuple(p) for p in perms]:
        perms[0] = rev                       # always include the exact reverse of the default order
    case["perms"] = perms
    case["out_dir"] = "build-out" if i % 3 == 2 else None       # `veryl build --out-dir build-out ...`
    return case


def scenario(case):
    ft = case["features"]
    if "deps-shared-project-name" in ft:
        return "path-deps-sharing-a-project-name"
    if "deps-path" in ft:
        ndep = len({f["proj"] for f in case["files"] if not f["root"]})
        return "several-path-deps" if ndep >= 2 else "one-path-dep"
    return "no-deps"


def kind_of(rel, case):
    o = case["opts"]
    od = case.get("out_dir")
    if od and rel.startswith(od + os.sep):
        rel = rel[len(od) + 1:]
    if rel == "Veryl.lock":
        return "lock"
    if rel in (case["name"] + ".f", case["name"] + ".list.rb"):
        return "filelist"
    if o["target"] == "bundle" and os.path.normpath(rel) == os.path.normpath(o["target_path"]):
        return "bundle"
    if rel.endswith(".sv.map"):
        return "map"
    if rel.endswith(".sv"):
        return "sv"
    return "other"


def is_output(rel):
    if rel.startswith(".build" + os.sep) or rel.endswith(".veryl") or rel == "Veryl.toml":
        return False
    return True


def one_build(case, d, home, files=None):
    """Fresh tree at d, build (+check). Returns what was observed."""
    L.rmtree(d)
    root = L.write_case(case, d)
    extra = list(files or [])
    od = ["--out-dir", case["out_dir"]] if case.get("out_dir") else []
    b = L.run_veryl(["build"] + od + extra, root, home)
    c = L.run_veryl(["check"] + extra, root, home)
    outs = L.read_files(root, is_output)
    proc = [os.path.relpath(p, root) for p in L.processed_files(b["err"]) if p.startswith(root + os.sep)]
    return {"build_code": b["code"], "check_code": c["code"], "panic": b["panic"] or c["panic"],
            "outputs": outs, "diags": L.diag_multiset(L.parse_diags(c["err"])),
            "build_diags": L.diag_multiset(L.parse_diags(b["err"])),
            "order": proc, "stderr": L.tail(b["err"], 600)}


def chunks(text):
    """A bundle as a multiset of per-source chunks (split at the marker comments)."""
    ms = L.markers(text)
    if not ms:
        return [text]
    cut = [text.rfind("\n", 0, off) + 1 for off, _ in ms]
    out = [text[:cut[0]]] if cut[0] > 0 else []
    for k, c in enumerate(cut):
        out.append(text[c:cut[k + 1] if k + 1 < len(cut) else len(text)])
    return sorted(out)


def udiff(a, b, n=14):
    a = a.decode("utf-8", "replace").splitlines()
    b = b.decode("utf-8", "replace").splitlines()
    return "\n".join(list(difflib.unified_diff(a, b, "reference", "other", lineterm="", n=1))[:n])


def compare(case, ref, other, mode):
    """-> (hard {kind: detail}, soft {name: n}). mode: 'repeat' demands bytes everywhere; 'order' see header."""
    hard, soft = {}, {}
    if ref["build_code"] != other["build_code"] or ref["check_code"] != other["check_code"]:
        hard["exit"] = f"build/check exit {ref['build_code']}/{ref['check_code']} vs {other['build_code']}/{other['check_code']}"
    if ref["diags"] != other["diags"] or ref["build_diags"] != other["build_diags"]:
        a, b = ref["diags"] + ref["build_diags"], other["diags"] + other["build_diags"]
        only_a = [x for x in a if x not in b][:3]
        only_b = [x for x in b if x not in a][:3]
        hard["diag"] = f"diagnostic multisets differ: only in reference {only_a}, only in other {only_b}"
    ro, oo = ref["outputs"], other["outputs"]
    for rel in sorted(set(ro) | set(oo)):
        k = kind_of(rel, case)
        if rel not in ro or rel not in oo:
            hard.setdefault(k, f"{rel} exists only in the {'reference' if rel in ro else 'other'} run")
            continue
        if ro[rel] == oo[rel]:
            continue
        if mode == "order" and k == "filelist":
            if sorted(ro[rel].split(b"\n")) == sorted(oo[rel].split(b"\n")):
                soft["filelist_reordered"] = 1
                continue
        if mode == "order" and k == "bundle":
            if chunks(ro[rel].decode("utf-8", "replace")) == chunks(oo[rel].decode("utf-8", "replace")):
                soft["bundle_reordered"] = 1
                continue
        hard.setdefault(k, f"{rel} differs:\n{udiff(ro[rel], oo[rel])}")
    return hard, soft


def run_case(case, scratch, repeats):
    d = os.path.join(scratch, f"c{case['index']}")
    work = os.path.join(d, "w")
    home = os.path.join(d, "home")
    res = {"case": case, "findings": [], "counters": {}, "orders": [], "notes": []}
    cnt = res["counters"]

    def bump(k, n=1):
        cnt[k] = cnt.get(k, 0) + n

    cls = scenario(case)
    ref = one_build(case, work, home)
    res["ref_codes"] = (ref["build_code"], ref["check_code"])
    if ref["panic"]:
        bump("reference_panicked")
        res["notes"].append("reference build panicked: " + ref["stderr"][-300:])
        L.rmtree(d)
        return res
    if ref["build_code"] != 0:
        bump("reference_build_failed")
        res["notes"].append("reference build failed (generator produced an error?): " + ref["stderr"][-400:])
        L.rmtree(d)
        return res
    bump("projects_built")
    if ref["diags"]:
        bump("projects_with_diagnostics")
        bump("diagnostic_records", len(ref["diags"]))
    bump("outputs_in_reference", len(ref["outputs"]))
    res["sample"] = {"scenario": cls, "target": case["opts"]["target"], "files": [f"{f['proj']}/{f['path']}" for f in case["files"]],
                     "outputs": sorted(ref["outputs"])[:30], "diagnostics": [json.loads(x) for x in ref["diags"][:3]]}
    # (b) repeats
    defaults = [ref]                     # every default-order outcome seen
    unstable = set()

    def one_more_default():
        o = one_build(case, work, home)
        hard, _ = compare(case, ref, o, "repeat")
        bump("repeat_runs_compared")
        bump("repeat_files_compared", len(ref["outputs"]))
        for kind, detail in hard.items():
            unstable.add(kind)
            res["findings"].append((f"repeat:{kind}-differs:{cls}",
                                    f"two fresh `veryl build` processes on identical trees disagree ({kind}): {detail}",
                                    {"kind": kind}))
        defaults.append(o)
        return o

    for k in range(1, repeats):
        one_more_default()
    if unstable:
        bump("projects_unstable_across_runs")

    def lock_of(o):
        return o["outputs"].get("Veryl.lock")

    # (a) orders: a permuted build is compared with a default-order build that resolved the *same* Veryl.lock
    # (dependency naming is process-dependent when two dependencies share a project name - reported above -
    # and must not be mistaken for an effect of the file order)
    orders = {tuple(ref["order"])}
    for perm in case["perms"]:
        o = one_build(case, work, home, perm)
        want = group_by_sources(case, perm)
        if o["order"][:len(want)] != want:
            res["notes"].append(f"explicit order not honoured: asked {want}, pipeline took {o['order'][:len(want)]}")
            bump("order_not_honoured")
            continue
        same = [x for x in defaults if lock_of(x) == lock_of(o)]
        tries = 0
        while not same and tries < 10:
            tries += 1
            x = one_more_default()
            if lock_of(x) == lock_of(o):
                same = [x]
        if not same:
            bump("order_no_default_run_with_same_lock")
            continue
        base = same[0]
        wobble = set()                    # kinds that already vary between default-order runs with this lock
        for x in same[1:]:
            h, _ = compare(case, base, x, "repeat")
            wobble |= set(h)
        orders.add(tuple(o["order"]))
        hard, soft = compare(case, base, o, "order")
        bump("permutations_compared")
        bump("order_files_compared", len(base["outputs"]))
        for kname in soft:
            bump("order_" + kname)
        for kind, detail in hard.items():
            if kind in wobble:
                bump("order_difference_ignored_unstable_kind")
                continue
            for ocls in (order_classes(case, base, o, kind) if kind in ("sv", "map", "bundle") else [cls]):
                res["findings"].append((f"order:{kind}-differs:{ocls}",
                                        f"`veryl build {' '.join(perm)}` vs default order ({kind}): {detail}",
                                        {"kind": kind, "perm": perm}))
    bump("distinct_orders", len(orders))
    res["orders"] = len(orders)
    if not os.environ.get("VERIF_KEEP_SCRATCH"):
        L.rmtree(d)
    return res


GENERIC_KINDS = ("gconst:", "gpkg:", "giface:", "gpackage:")


def order_classes(case, base, other, kind):
    """Scenario classes of an order-dependent output: which sources do the differing outputs (or bundle chunks)
    come from?  One class per kind of source file involved."""
    files = {f["uid"]: f for f in case["files"]}
    uids = set()
    bo, oo = base["outputs"], other["outputs"]
    for rel in set(bo) | set(oo):
        if kind_of(rel, case) != kind or bo.get(rel) == oo.get(rel):
            continue
        ta = bo.get(rel, b"").decode("utf-8", "replace")
        tb = oo.get(rel, b"").decode("utf-8", "replace")
        if kind == "bundle":
            ca, cb = chunks(ta), chunks(tb)
            for ch in [c for c in ca if c not in cb] + [c for c in cb if c not in ca]:
                uids |= {u for _o, u in L.markers(ch)}
        else:
            uids |= {u for _o, u in L.markers(ta)} | {u for _o, u in L.markers(tb)}
    ta, tb = uid_texts(case, base), uid_texts(case, other)
    out = set()
    for u in uids:
        # a pure permutation of the emitted lines (modport members, generic instances) is one failure kind,
        # lost / changed content another
        how = "lines-reordered" if u in ta and u in tb and norm_lines(ta[u]) == norm_lines(tb[u]) else "content-differs"
        items = files[u]["items"] if u in files else []
        gen = any(i.startswith(GENERIC_KINDS) for i in items)
        mix = any(i.startswith("mixiface:") for i in items)
        if gen:
            # instances of a generic module / interface / package are emitted in arrival order (notes D3)
            out.add("output-of-a-file-defining-a-generic-module:" + how)
        if mix:
            out.add("output-of-a-file-defining-a-mixin-interface:" + how)
        if not gen and not mix:
            out.add("other-output:" + how)
    return sorted(out) or ["other-output:content-differs"]


def uid_texts(case, run_result):
    """{source uid: emitted SystemVerilog text of that source} from the .sv files / the bundle chunks."""
    out = {}
    for rel, b in run_result["outputs"].items():
        k = kind_of(rel, case)
        if k == "sv":
            t = b.decode("utf-8", "replace")
            for _o, u in L.markers(t):
                out[u] = out.get(u, "") + t
        elif k == "bundle":
            for ch in chunks(b.decode("utf-8", "replace")):
                for _o, u in L.markers(ch):
                    out[u] = out.get(u, "") + ch
    return out


def norm_lines(text):
    return sorted(" ".join(l.replace(",", " ").split()) for l in text.splitlines() if l.strip())


def group_by_sources(case, perm):
    """Metadata::paths keeps the given order inside each `sources` directory and walks the directories in
    Veryl.toml order."""
    out = []
    for s in case["sources"]:
        out += [p for p in perm if p == s or p.startswith(s + "/")]
    return out


def main():
    args = Args()
    run = Run(args, "exploration",
              "one case = one generated multi-file project universe (3-7 root files, 0-3 path dependencies, optional "
              "shared dependency project name / $std / warnings) rebuilt from scratch K times and under P explicit file "
              "orders; non-trivial = reference build exit 0 and at least two runs compared; distinct = hash of the tree")
    run.assume("every run recreates the tree at the same absolute path with a private HOME, so byte comparison needs no "
               "normalisation; timestamps (.build/) are not outputs")
    run.assume("`veryl build <files>` analyses the named files in the given order per sources dir (verified per run from "
               "the 'Processing file' log; runs where it is not honoured are dropped and counted)")
    run.assume("re-ordering of filelist lines / bundle chunks with the argument order is not judged (counted only)")
    scratch = run.scratch()
    repeats = args.budget("repeats", 3, 5)
    nperm = args.budget("orders", 6, 12)
    if args.replay:
        rp = json.load(open(args.replay))
        cases = [rp["case"]["case"]]
        n = 1
    else:
        cases = None
        n = args.budget("cases", 15, 120)

    def work(i):
        case = cases[i] if cases else make_case(args.seed, i, nperm)
        return run_case(case, scratch, repeats)

    def handle(i, res, err):
        if err:
            run.inconclusive(f"harness error in case {i}: {err.splitlines()[-1]}")
            run.note(err)
            return
        run.eval()
        case = res["case"]
        for k, v in res["counters"].items():
            run.count(k, v)
        for nt in res["notes"]:
            run.note(f"case {i}: {nt}")
        run.seen("scenarios", scenario(case))
        run.seen("targets", case["opts"]["target"] + ("+out-dir" if case.get("out_dir") else ""))
        if case.get("out_dir"):
            run.count("out_dir_projects")
        for ft in case["features"]:
            run.seen("features", ft)
        if res["counters"].get("permutations_compared"):
            for ft, name in (("mixin-interface-across-files", "shape_mixin_interface_across_files"),
                             ("modport-default-direction", "shape_modport_default_direction"),
                             ("generic-interface-instance", "shape_generic_interface_instances"),
                             ("generic-package-instance", "shape_generic_package_instances"),
                             ("enum-values-from-other-package", "shape_enum_values_from_other_package")):
                if ft in case["features"]:
                    run.count(name)
            if any(x.startswith("modport-port-mixiface") for x in case["features"]):
                run.count("shape_module_with_mixin_modport_port")
        if res["counters"].get("projects_built") and (res["counters"].get("repeat_runs_compared", 0)
                                                      + res["counters"].get("permutations_compared", 0)) >= 1:
            run.nontrivial(L.sha(json.dumps(case["tree"], sort_keys=True).encode()))
        if "sample" in res:
            s = dict(res["sample"])
            s["distinct_orders"] = res.get("orders")
            s["an_order"] = case["perms"][0] if case["perms"] else None
            run.sample(s)
        for sig, what, detail in res["findings"]:
            run.violation(sig, what, {"case": case, "detail": detail,
                                      "how": "write case.tree below a directory, cd <dir>/root, run `veryl build` "
                                             "(with `--out-dir case.out_dir` if set, optionally with case.perms[k] as "
                                             "arguments) in fresh copies and diff"})

    L.run_cases(n, L.jobs(args), work, handle)
    if args.replay:
        run.finish([])
    run.finish([("projects_built", 5), ("repeat_runs_compared", 10), ("permutations_compared", 15),
                ("distinct_orders", 20), ("diagnostic_records", 3), ("scenarios", 2), ("out_dir_projects", 1),
                ("shape_mixin_interface_across_files", 5), ("shape_modport_default_direction", 5),
                ("shape_module_with_mixin_modport_port", 4), ("shape_generic_interface_instances", 3),
                ("shape_generic_package_instances", 3), ("shape_enum_values_from_other_package", 1)])


if __name__ == "__main__":
    main()
